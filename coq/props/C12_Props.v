(* C12 — property theorems only (real-number semantics of the model text, instance RNum).
   Each is closed by [exact] of a lemma from proofs/C12_ISA.v, proofs/C12_Proofs.v or proofs/C12_MEEM.v.

   READ THIS FIRST — what these statements do and do not say.

   Domain.  Every theorem carries the hypotheses of the property's quantifier: positive certification indices and
   calibration flows (tpos), k > 0, physical ambient state (0 < Ta, 0 < P; for NOx also [humidity_defined]: the
   water-vapour partial pressure at 60 % humidity is below the ambient pressure, i.e. the denominator of Eq. 44 is
   positive), positive engine count / reference state for FFM2, 0 < p for the ISA inverse, the guard region for MEEM.
   Coq's ln and division are total (ln x = 0 for x <= 0, x / 0 = x * /0 with /0 an unspecified real), so several of
   these laws remain provable outside that domain; such wider statements are NOT claimed here, Python returns NaN or
   inf there.  Statements that still quantify over arguments on which totalisation could matter, and why it does not:
     - C12_isa_pressure_altitude_inverse (forall h): the tropospheric branch is only taken for h <= 11 km, where
       T0 + beta h > 0; no logarithm of a non-positive number occurs.
     - C12_hcco_clamp_rules / C12_thrust_cat_*: pure order reasoning on reals; the only divisions are by the constant 2
       and by a slope proved not numerically zero.
     - C12_pm_scales_with_cert_EI (3rd clause), C12_meem_nonneg_partial (2nd, 3rd clause): component lemmas about
       [meem_adjust] for ARBITRARY P3, P3ref; they are meaningful for 0 < P3, 0 < P3ref, which C12_meem_nonneg and
       C12_meem_denominators_nonzero establish inside the guard.  Fuel flow ff <= 0 is inside the domain on purpose:
       the code (and the model) clamp it (NOx) or map it to the zero / horizontal branch (HC/CO) before any logarithm.

   'Finite'.  The property also asks for finite results.  Over the reals every value is finite, so NO theorem here says
   anything about finiteness for NOx, HC/CO, FFM2, SOx, PMvol or SCOPE11; binary64 overflow / NaN is not reasoned
   about.  What is proved instead is the real-number precondition of finiteness (non-zero denominators, positive bases
   of powers / logarithms) — explicitly for MEEM (C12_meem_denominators_nonzero), implicitly for the others via the
   hypotheses above.  Finiteness itself is checked only on the implementation's outputs by harness/c12.py.  Known
   consequence: for nearly equal (not equal) idle / approach calibration flows the HC/CO log-log slope is of order
   1e5 and the exact value leaves the binary64 range for small flows — the cited method, not the code; the harness
   skips points whose exact value lies outside 1e+-250 instead of reporting 'not finite'.

   Branch-guard restatements.  C12_hcco_clamp_rules clauses 1-4, C12_hcco_flat_and_low_thrust_rules clauses 2-3 and
   C12_thrust_cat_exactly_one unfold the MODEL's own branch guards: they document which rule the model applies when,
   they are not independent facts.  Their genuine content is: the segments meet at the raw breakpoint (clause 5),
   rule (c) is flat at every positive flow (clause 1 of the second theorem), and monotonicity of the category.  That the
   CODE applies the same guards is established elsewhere: link/C12_Link.v (thrust category and np.select order by
   reflexivity on the regenerated text) and the binary64 correspondence + independent oracle of harness/c12.py
   (EI_HCCO's branching is hand-modelled). *)
From Coq Require Import ZArith Reals List String Bool.
From AV Require Import lib.Num lib.FloatMath model.C12_Base model.C12_Model proofs.C12_ISA proofs.C12_Proofs proofs.C12_MEEM.
Import ListNotations.
Local Open Scope R_scope.

(* ---- ISA: pressure <-> altitude mutually inverse, both layers, every altitude (in particular 0-25 km) --- *)
Theorem C12_isa_pressure_altitude_inverse :
  (forall h : R, @isa_altitude RNum (@isa_pressure RNum h) = h) /\
  (forall p : R, 0 < p -> @isa_pressure RNum (@isa_altitude RNum p) = p).
Proof. exact (conj isa_altitude_of_pressure isa_pressure_of_altitude). Qed.
Print Assumptions C12_isa_pressure_altitude_inverse.

(* every altitude has a positive pressure, so h -> p -> h -> p is always inside the second clause *)
Theorem C12_isa_pressure_positive : forall h : R, 0 < @isa_pressure RNum h.
Proof. exact isa_pressure_pos. Qed.
Print Assumptions C12_isa_pressure_positive.

(* epsilon-delta continuity of both profiles at the tropopause (11 000 m, 216.65 K) *)
Theorem C12_isa_continuous_at_tropopause :
  continuity_pt (@isa_temperature RNum) (@c_htrop RNum) /\ continuity_pt (@isa_pressure RNum) (@c_htrop RNum) /\
  @isa_temperature RNum (@c_htrop RNum) = 21665 / 100.
Proof. exact (conj isa_temperature_continuous (conj isa_pressure_continuous isa_temperature_at_tropopause)). Qed.
Print Assumptions C12_isa_continuous_at_tropopause.

(* ---- Fuel Flow Method 2 ---------------------------------------------------------------------------- *)
Theorem C12_ffm2_linear_in_fuel_flow :
  forall k f1 f2 P Ta M z PSL TSL n : R, 0 < P -> 0 < Ta -> 0 < PSL -> 0 < TSL -> 0 < n ->
    @ffm2 RNum (k * f1) P Ta M z PSL TSL n = k * @ffm2 RNum f1 P Ta M z PSL TSL n /\
    @ffm2 RNum (f1 + f2) P Ta M z PSL TSL n = @ffm2 RNum f1 P Ta M z PSL TSL n + @ffm2 RNum f2 P Ta M z PSL TSL n.
Proof. exact ffm2_linear_physical. Qed.
Print Assumptions C12_ffm2_linear_in_fuel_flow.

Theorem C12_ffm2_nonneg :
  forall ff P Ta M z PSL TSL n : R, 0 <= ff -> 0 < P -> 0 < Ta -> 0 < PSL -> 0 < TSL -> 0 < n ->
    0 <= @ffm2 RNum ff P Ta M z PSL TSL n.
Proof. exact ffm2_nonneg_physical. Qed.
Print Assumptions C12_ffm2_nonneg.
Example C12_ffm2_nonneg_nonvacuous :
  0 <= (1:R) /\ 0 < (22632:R) /\ 0 < (21665/100:R) /\ 0 < (101325:R) /\ 0 < (28815/100:R) /\ 0 < (2:R).
Proof. exact ffm2_physical_satisfiable. Qed.

(* ---- thrust categories: for ALL calibration flows (monotone or not, equal or not) ------------------- *)
Theorem C12_thrust_cat_exactly_one :
  forall (ff : R) (cal : tm),
    (in_idle ff cal /\ ~ in_approach ff cal /\ ~ in_climb ff cal /\ @thrust_cat RNum ff cal = Idle) \/
    (~ in_idle ff cal /\ in_approach ff cal /\ ~ in_climb ff cal /\ @thrust_cat RNum ff cal = Approach) \/
    (~ in_idle ff cal /\ ~ in_approach ff cal /\ in_climb ff cal /\ @thrust_cat RNum ff cal = Climb).
Proof. exact thrust_cat_exactly_one. Qed.
Print Assumptions C12_thrust_cat_exactly_one.

Theorem C12_thrust_cat_monotone :
  forall (f1 f2 : R) (cal : tm), f1 <= f2 ->
    (mode_rank (@thrust_cat RNum f1 cal) <= mode_rank (@thrust_cat RNum f2 cal))%Z.
Proof. exact thrust_cat_monotone. Qed.
Print Assumptions C12_thrust_cat_monotone.
Example C12_thrust_cat_monotone_nonvacuous :
  @thrust_cat RNum (1/10) (2/10, 6/10, 15/10, 2) = Idle /\ @thrust_cat RNum 1 (2/10, 6/10, 15/10, 2) = Approach /\
  @thrust_cat RNum 3 (2/10, 6/10, 15/10, 2) = Climb /\
  (* non-monotone calibration flows: the approach band is empty, the order is still idle -> climb *)
  @thrust_cat RNum (1/2) (1, 1, 1/10, 2) = Idle /\ @thrust_cat RNum (3/2) (1, 1, 1/10, 2) = Climb.
Proof. exact thrust_cat_examples. Qed.

(* ---- BFFM2 NOx --------------------------------------------------------------------------------------- *)
(* multiplying the four certification indices by k > 0 multiplies NOx, NO, NO2, HONO by k and leaves the
   speciation fractions alone; every fuel flow (incl. <= 0, clamped), every calibration flow set (incl. equal
   and non-monotone; four equal flows use the flat line), every ambient state *)
Theorem C12_nox_scales_with_cert_EI :
  forall (k ff : R) (ei cal : tm) (Ta P : R), 0 < k -> tpos ei -> tpos cal -> humidity_defined Ta P ->
    @bffm2_nox RNum ff (tscale k ei) cal Ta P =
    let '(nox, no, no2, hono, pno, pno2, phono) := @bffm2_nox RNum ff ei cal Ta P in
    (k * nox, k * no, k * no2, k * hono, pno, pno2, phono).
Proof. exact bffm2_nox_scales_physical. Qed.
Print Assumptions C12_nox_scales_with_cert_EI.
Example C12_nox_scales_nonvacuous :
  (0 < (2:R) /\ tpos (30, 25, 20, 18) /\ tpos (2/10, 6/10, 15/10, 2) /\ 0 < (21665/100:R) /\ 0 < (22632:R)) /\
  (forall Ta : R, 0 < Ta -> exists P, humidity_defined Ta P) /\
  (* the hypothesis is exactly what keeps the humidity denominator positive *)
  (forall Ta P : R, humidity_defined Ta P ->
     0 < Ta + 1 / 100 /\
     0 < P / @c_p0 RNum * @q RNum 1837 125 - @q RNum 3 5 * (@q RNum 1813 125000 * @pow10 RNum (@sat_beta RNum Ta))).
Proof. exact (conj cert_data_satisfiable (conj humidity_defined_satisfiable humidity_defined_denominator)). Qed.

Theorem C12_nox_nonneg_and_speciated :
  forall (ff : R) (ei cal : tm) (Ta P : R), tpos ei -> tpos cal -> humidity_defined Ta P ->
    let '(nox, no, no2, hono, pno, pno2, phono) := @bffm2_nox RNum ff ei cal Ta P in
    0 < nox /\ 0 < no /\ 0 < no2 /\ 0 < hono /\ no + no2 + hono = nox /\ pno + pno2 + phono = 1.
Proof. exact bffm2_nox_positive_physical. Qed.
Print Assumptions C12_nox_nonneg_and_speciated.

(* the code before fix FC12a (numpy.polyfit's minimum-norm line for four equal calibration flows) is not
   equivariant under a shift of the log-indices, i.e. not linear in the certification indices *)
Theorem C12_nox_all_equal_flows_before_fix_refuted :
  exists c xe (xc yc : tm),
    @nox_line_log_v RNum DegMinNorm xe xc (tshift c yc) <> @nox_line_log_v RNum DegMinNorm xe xc yc + c.
Proof. exact nox_line_log_minnorm_not_shift_equivariant. Qed.
Print Assumptions C12_nox_all_equal_flows_before_fix_refuted.

(* ---- BFFM2 HC / CO ------------------------------------------------------------------------------------ *)
Theorem C12_hcco_scales_with_cert_EI :
  forall (k ff : R) (ei cal : tm) (Ta P : R), 0 < k -> tpos ei -> tpos cal -> 0 < Ta -> 0 < P ->
    @hcco RNum ff (tscale k ei) cal Ta P = k * @hcco RNum ff ei cal Ta P.
Proof. exact hcco_scales_physical. Qed.
Print Assumptions C12_hcco_scales_with_cert_EI.
Example C12_hcco_scales_nonvacuous :
  0 < (2:R) /\ tpos (30, 25, 20, 18) /\ tpos (2/10, 6/10, 15/10, 2) /\ 0 < (21665/100:R) /\ 0 < (22632:R).
Proof. exact cert_data_satisfiable. Qed.

Theorem C12_hcco_nonneg :
  forall (ff : R) (ei cal : tm) (Ta P : R), tpos ei -> tpos cal -> 0 < Ta -> 0 < P ->
    0 <= @hcco RNum ff ei cal Ta P /\ (0 < ff -> 0 < @hcco RNum ff ei cal Ta P).
Proof. exact hcco_nonneg_physical. Qed.
Print Assumptions C12_hcco_nonneg.

(* the documented SAGE clamping rules, for all real values of the log10 certification data *)
Theorem C12_hcco_clamp_rules :
  forall (lEI lff : tm),
    let '(s, h, x) := @hcco_fit_raw RNum lEI lff in
    let '(eI, eA, eC, eT) := lEI in let '(fI, fA, fC, fT) := lff in
    (fC < x -> @hcco_fit_log RNum lEI lff = (s, fI, eI, h, fC)) /\
    (x <= fC -> x < fA -> s < 0 -> @hcco_fit_log RNum lEI lff = (s, fI, eI, eA, fA)) /\
    (x <= fC -> 0 <= s -> @hcco_fit_log RNum lEI lff = (0, 0, h, h, fA)) /\
    (fA <= x <= fC -> s < 0 -> @hcco_fit_log RNum lEI lff = (s, fI, eI, h, x)) /\
    (@isclose0 RNum s = false -> s * (x - fI) + eI = h).
Proof. intros lEI lff.
  pose proof (hcco_rule_a lEI lff) as A. pose proof (hcco_rule_b lEI lff) as B.
  pose proof (hcco_rule_c lEI lff) as C. pose proof (hcco_rule_none lEI lff) as D.
  pose proof (hcco_segments_meet lEI lff) as E.
  destruct (@hcco_fit_raw RNum lEI lff) as [[s h] x].
  destruct lEI as [[[eI eA] eC] eT], lff as [[[fI fA] fC] fT].
  exact (conj A (conj B (conj C (conj D E)))). Qed.
Print Assumptions C12_hcco_clamp_rules.
Example C12_hcco_clamp_rules_nonvacuous :
  @hcco_rule_of RNum (2, 1, -1, -1) ex_lff = RuleClampHigh /\ @hcco_rule_of RNum (2, 1, 3/2, 3/2) ex_lff = RuleNegSlopeLow /\
  @hcco_rule_of RNum (1, 2, 0, 0) ex_lff = RuleFlat /\ @hcco_rule_of RNum (2, 1, 0, 0) ex_lff = RuleNone /\
  @hcco_rule_of RNum (2, 1, 0, 0) (0, 0, 1, 2) = RuleFlat.
Proof. exact (conj hcco_rule_a_reached (conj hcco_rule_b_reached (conj hcco_rule_c_reached
               (conj hcco_rule_none_reached hcco_equal_flows_flat)))). Qed.

Theorem C12_hcco_flat_and_low_thrust_rules :
  (forall h fA ff : R, 0 < ff -> @hcco_eval RNum (0, 0, h, h, fA) ff = @pow10 RNum h) /\
  (forall (ff : R) (ei cal : tm) (Ta P : R), ff < @tget RNum cal Idle ->
     @hcco RNum ff ei cal Ta P =
     @hcco_sl RNum ff ei cal * (1 + 52 * (@tget RNum cal Idle - ff)) * @hcco_cruise RNum Ta P) /\
  (forall (ff : R) (ei cal : tm) (Ta P : R), @tget RNum cal Idle <= ff ->
     @hcco RNum ff ei cal Ta P = @hcco_sl RNum ff ei cal * @hcco_cruise RNum Ta P).
Proof. exact (conj hcco_flat_everywhere (conj hcco_low_thrust hcco_not_low_thrust)). Qed.
Print Assumptions C12_hcco_flat_and_low_thrust_rules.

(* ---- SOx ------------------------------------------------------------------------------------------------ *)
Theorem C12_sox_sulfur_conserved :
  forall fsc eps : R,
    let '(sx, so2, so4) := @sox RNum fsc eps in
    so2 * @mw_S RNum / @mw_SO2 RNum + so4 * @mw_S RNum / @mw_SO4 RNum = fsc / 1000 /\ sx = so2 + so4.
Proof. exact sox_conserved. Qed.
Print Assumptions C12_sox_sulfur_conserved.

Theorem C12_sox_nonneg :
  forall fsc eps : R, 0 <= fsc -> 0 <= eps <= 1 ->
    let '(sx, so2, so4) := @sox RNum fsc eps in 0 <= sx /\ 0 <= so2 /\ 0 <= so4.
Proof. exact sox_nonneg. Qed.
Print Assumptions C12_sox_nonneg.
Example C12_sox_nonneg_nonvacuous : 0 <= (600:R) /\ 0 <= (1/50:R) <= 1.
Proof. exact sox_hyps_satisfiable. Qed.

(* ---- particulate matter ----------------------------------------------------------------------------------- *)
Theorem C12_pm_scales_with_cert_EI :
  (forall k t hc : R, @pmvol_foa3 RNum t (k * hc) = (k * fst (@pmvol_foa3 RNum t hc), k * snd (@pmvol_foa3 RNum t hc))) /\
  (forall (k : R) (v : tm) (vmax : R) (kind : maxkind) (F : R),
      @ninterp RNum F (@meem_grid RNum (tscale k v) (k * vmax) kind) = k * @ninterp RNum F (@meem_grid RNum v vmax kind)) /\
  (forall k ref P3 P3ref : R, @meem_adjust RNum (k * ref) P3 P3ref = k * @meem_adjust RNum ref P3 P3ref).
Proof. split; [exact pmvol_foa3_scales | split; [ | exact meem_adjust_scales]].
  intros. rewrite meem_grid_scales. apply ninterp_scales. Qed.
Print Assumptions C12_pm_scales_with_cert_EI.

Theorem C12_pm_nonneg :
  (forall t hc : R, 0 <= hc -> 0 <= fst (@pmvol_foa3 RNum t hc) /\ 0 <= snd (@pmvol_foa3 RNum t hc)) /\
  (forall m, 0 < fst (@pmvol_fuelflow RNum m) /\ 0 < snd (@pmvol_fuelflow RNum m)) /\
  (forall (sn : R) m (bpr : R) et, 0 <= bpr -> 0 <= @scope11_mode RNum sn m bpr et).
Proof. exact (conj pmvol_foa3_nonneg (conj pmvol_fuelflow_positive scope11_mode_nonneg)). Qed.
Print Assumptions C12_pm_nonneg.

(* above the tropopause the temperature is constant and the pressure keeps falling strictly *)
Theorem C12_isa_stratosphere :
  (forall h : R, @c_htrop RNum < h ->
     @isa_temperature RNum h = @c_T0 RNum + @c_beta RNum * @c_htrop RNum /\ @isa_pressure RNum h < @isa_ptrop RNum) /\
  (forall h1 h2 : R, @c_htrop RNum < h1 -> h1 < h2 -> @isa_pressure RNum h2 < @isa_pressure RNum h1).
Proof. exact (conj isa_stratosphere isa_stratosphere_decreasing). Qed.
Print Assumptions C12_isa_stratosphere.

(* ---- MEEM: the whole per-point pipeline meem_point = meem_emit . meem_thermo ------------------------------ *)
(* the guard region (non-negative pressure coefficient) and its complement (contains all of finding FC12b) *)
Theorem C12_meem_guard_region :
  (forall pr hmax hp h : R, 1 < pr -> @meem_p3_ratio RNum pr hmax hp h <= 0 -> @meem_guard RNum hmax hp h = false) /\
  (forall pr hmax hp h : R, 1 < pr -> @meem_guard RNum hmax hp h = true -> 1 <= @meem_p3_ratio RNum pr hmax hp h) /\
  (forall hmax hp h : R, (h <= hp \/ 3000 <= h) -> h <= hmax -> @meem_guard RNum hmax hp h = true).
Proof. exact (conj meem_fc12b_outside_guard (conj meem_guard_ratio meem_guard_region)). Qed.
Print Assumptions C12_meem_guard_region.
Example C12_meem_guard_nonvacuous : @meem_guard RNum 11000 3000 6000 = true /\ @meem_guard RNum 2500 0 1000 = false.
Proof. exact ex_guard. Qed.

(* inside the guard every denominator is non-zero and every base of a real power is positive *)
Theorem C12_meem_denominators_nonzero :
  (forall pr pc eta Ta P M : R, 1 < pr -> 0 <= pc -> (eta = 22 / 25 \/ eta = 7 / 10) -> 0 < Ta -> 0 < P ->
     let T3 := @meem_T3 RNum Ta P M pc pr eta in
     0 < @meem_stag RNum M /\ 0 < @meem_Pt RNum P M /\ eta <> 0 /\ 1 <= @meem_P3 RNum P M pc pr / @meem_Pt RNum P M /\
     0 < @meem_P3 RNum P M pc pr /\ 0 < T3 /\ @c_T0 RNum <> 0 /\ 0 < 1 + eta * (T3 / @c_T0 RNum - 1) /\
     0 < @meem_P3ref RNum T3 eta /\ @c_p0 RNum <> 0 /\ pr - 1 <> 0 /\
     0 < @meem_P3 RNum P M pc pr / @meem_P3ref RNum T3 eta) /\
  (forall hp h : R, @meem_eta RNum hp h = 22 / 25 \/ @meem_eta RNum hp h = 7 / 10) /\
  (forall hmax : R, 0 < @nmax RNum (@q RNum 1 1) (hmax - @q RNum 3000 1)).
Proof. exact (conj meem_thermo_wellformed (conj meem_eta_cases meem_lin_denominator_pos)). Qed.
Print Assumptions C12_meem_denominators_nonzero.

(* positive certification data + guard + physical ambient state => GMD >= 20 nm, mass and number index > 0,
   and the last denominator (1e-3 x reference mass index) is non-zero; for single points and whole trajectories *)
Theorem C12_meem_nonneg :
  (forall (e : redb) (P3 P3ref F : R), edb_ok e -> 0 < P3 -> 0 < P3ref ->
     let mass := @meem_mass_modes RNum e in
     let ref_mass := @ninterp RNum F (@meem_grid RNum mass (e_mass_max e) (e_mass_kind e)) in
     let '(gmd, ei_mass, ei_num) := @meem_emit RNum e (P3, P3ref, F) in
     @q RNum 1 1000 * ref_mass <> 0 /\ 20 <= gmd /\ 0 < ei_mass /\ 0 < ei_num) /\
  (forall (e : redb) (hmax hp h Ta P M : R), edb_ok e -> @meem_guard RNum hmax hp h = true -> 0 < Ta -> 0 < P ->
     out_ok (@meem_point RNum e hmax hp h Ta P M)) /\
  (forall (e : redb) (l : list (R * R * R * R)), edb_ok e -> ambient_ok l ->
     match l with
     | [] => @meem RNum e l = []
     | (h0, _, _, _) :: r =>
         let hmax := @list_max RNum (map (fun p => let '(h, _, _, _) := p in h) r) h0 in
         Forall2 (fun g o => g = true -> out_ok o) (guards_from hmax h0 l) (@meem RNum e l)
     end).
Proof. exact (conj meem_emit_nonneg (conj meem_point_nonneg meem_whole_trajectory_nonneg)). Qed.
Print Assumptions C12_meem_nonneg.
Example C12_meem_nonneg_nonvacuous : edb_ok ex_edb /\ tpos (e_mass ex_edb) /\ tpos (e_num ex_edb).
Proof. exact ex_edb_ok. Qed.

(* linear in the certification mass indices (modes and maximum) and in the certification number indices *)
Theorem C12_meem_scales_with_cert_EI :
  (forall (k : R) (e : redb) (hmax hp h Ta P M : R), 0 < k -> tpos (e_mass e) -> 0 < e_mass_max e -> tpos (e_num e) ->
     let '(gmd, ei_mass, ei_num) := @meem_point RNum e hmax hp h Ta P M in
     @meem_point RNum (edb_scale_mass k e) hmax hp h Ta P M = (gmd, k * ei_mass, ei_num)) /\
  (forall (k : R) (e : redb) (hmax hp h Ta P M : R), 0 < k -> tpos (e_num e) ->
     let '(gmd, ei_mass, ei_num) := @meem_point RNum e hmax hp h Ta P M in
     @meem_point RNum (edb_scale_num k e) hmax hp h Ta P M = (gmd, ei_mass, k * ei_num)) /\
  (forall k mv m, @meem_recon_num RNum (k * mv) m = k * @meem_recon_num RNum mv m).
Proof. exact (conj meem_point_scales_mass (conj meem_point_scales_num meem_recon_scales)). Qed.
Print Assumptions C12_meem_scales_with_cert_EI.

(* the component lemmas the theorems above are assembled from (kept: they hold under weaker hypotheses).
   Still NOT proved for MEEM: anything about binary64 (overflow / NaN) — that is the correspondence's job. *)
Theorem C12_meem_nonneg_partial :
  (forall (b F : R) (v : tm) (vmax : R) (kind : maxkind),
      (let '(a0, a1, a2, a3) := v in b <= a0 /\ b <= a1 /\ b <= a2 /\ b <= a3) -> b <= vmax ->
      b <= @ninterp RNum F (@meem_grid RNum v vmax kind)) /\
  (forall ref P3 P3ref : R, 0 < ref -> 0 < @meem_adjust RNum ref P3 P3ref) /\
  (forall ref_num ref_mass P3 P3ref : R, 0 < ref_mass ->
      ref_num * @meem_adjust RNum ref_mass P3 P3ref / (@q RNum 1 1000 * ref_mass) =
      ref_num * (@npow RNum (P3 / P3ref) (@q RNum 27 20) * @npow RNum (@q RNum 11 10) (@q RNum 5 2))) /\
  (forall pr hmax hp h : R, 1 < pr -> (h <= hp \/ 3000 <= h) -> h <= hmax -> 0 < @meem_p3_ratio RNum pr hmax hp h).
Proof. exact (conj meem_reference_ge (conj meem_adjust_pos (conj meem_number_index meem_p3_ratio_pos))). Qed.
Print Assumptions C12_meem_nonneg_partial.

(* finding FC12b: for a climbing point below 3000 m of a trajectory that tops out low the modelled combustor
   pressure is negative (the implementation then returns NaN) *)
Theorem C12_meem_low_climb_refuted :
  exists pr hmax hp h : R, 1 < pr /\ 0 <= hp < h /\ h <= hmax /\ @meem_p3_ratio RNum pr hmax hp h < 0.
Proof. exact meem_low_climb_negative_pressure. Qed.
Print Assumptions C12_meem_low_climb_refuted.

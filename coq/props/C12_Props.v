(* placeholder, filled below *)
From AV Require Import lib.Num model.C12_Base model.C12_Model.

(* C15 — property theorems only.  Each is closed by [exact] of a lemma from proofs/C15_Proofs.v.
   Real-number semantics of the model text; pyproj's direct/inverse geodesic problems enter as
   universally quantified oracles [inv], [fwd], [inv4] with the stated laws as premises. *)
From Coq Require Import ZArith Reals List Bool Arith.
From AV Require Import lib.Num model.C15_Model proofs.C15_Proofs.
Import ListNotations.
Local Open Scope R_scope.

(* total length = sum of the legs' geodesic distances; for a great-circle track = the geodesic distance
   between its end points *)
Theorem C15_total_is_sum_of_legs :
  forall (P : Type) (inv : P -> P -> R * R) (wps : list P) (al : bool),
    @total RNum (track_of P inv wps al) = rsum (map snd (legs_of P inv wps)).
Proof. exact track_total_is_sum_of_legs. Qed.
Print Assumptions C15_total_is_sum_of_legs.

Theorem C15_great_circle_total_is_geodesic_distance :
  forall (P : Type) (inv : P -> P -> R * R) (a b : P) (al : bool),
    @total RNum (track_of P inv [a; b] al) = snd (inv a b).
Proof. exact great_circle_total. Qed.
Print Assumptions C15_great_circle_total_is_geodesic_distance.

(* structural form: strictly inside the track the answer is the forward solution from the waypoint before,
   along that leg's azimuth, at the offset into the leg whose cumulative range contains d *)
Theorem C15_location_on_leg_at_offset :
  forall (g : track RNum) (d : R), 0 < d < @total RNum g ->
    exists k, (k < @nlegs RNum g)%nat /\ @idx RNum g k < d <= @idx RNum g (S k) /\
      @location RNum g d = let p := PFwd k (@leg_az RNum g k) (d - @idx RNum g k) in At p (AInvFrom p (S k)).
Proof. exact location_inside. Qed.
Print Assumptions C15_location_on_leg_at_offset.

Example C15_location_on_leg_nonvacuous : 0 < 1200 < @total RNum demo_track.
Proof. exact location_inside_nonvacuous. Qed.

Theorem C15_location_at_start_and_end :
  forall g : track RNum, 0 < @total RNum g ->
    @location RNum g 0 = At (PWp 0) (ALeg 0) /\
    @location RNum g (@total RNum g) = At (PWp (@nlegs RNum g)) (ALeg (@nlegs RNum g - 1)).
Proof. intros g H. split; [apply location_start; apply Rlt_le; exact H|apply location_end; exact H]. Qed.
Print Assumptions C15_location_at_start_and_end.

(* semantic form over geodesic oracles: the point lies on the geodesic from a towards b, exactly d from a *)
Theorem C15_great_circle_location_exactly_d_from_start :
  forall (P : Type) (inv : P -> P -> R * R) (fwd : P -> R -> R -> P) (dflt : P) (dmax : R),
    (forall p az d, 0 <= d <= dmax -> snd (inv p (fwd p az d)) = d) ->
    forall a b al d, 0 < d < snd (inv a b) -> snd (inv a b) <= dmax ->
    exists p z, @location RNum (track_of P inv [a; b] al) d = At p z /\
      evalp P fwd dflt [a; b] p = fwd a (fst (inv a b)) d /\ snd (inv a (evalp P fwd dflt [a; b] p)) = d.
Proof. exact great_circle_location. Qed.
Print Assumptions C15_great_circle_location_exactly_d_from_start.

Theorem C15_track_location_on_leg_geodesic :
  forall (P : Type) (inv : P -> P -> R * R) (fwd : P -> R -> R -> P) (dflt : P) (dmax : R),
    (forall p az d, 0 <= d <= dmax -> snd (inv p (fwd p az d)) = d) ->
    forall wps al d, 0 < d < @total RNum (track_of P inv wps al) -> @total RNum (track_of P inv wps al) <= dmax ->
    (forall i, 0 <= @idx RNum (track_of P inv wps al) i) ->
    exists k p z, (S k < length wps)%nat /\ @location RNum (track_of P inv wps al) d = At p z /\
      @idx RNum (track_of P inv wps al) k < d <= @idx RNum (track_of P inv wps al) (S k) /\
      evalp P fwd dflt wps p
        = fwd (nth k wps dflt) (fst (inv (nth k wps dflt) (nth (S k) wps dflt))) (d - @idx RNum (track_of P inv wps al) k) /\
      snd (inv (nth k wps dflt) (evalp P fwd dflt wps p)) = d - @idx RNum (track_of P inv wps al) k.
Proof. exact track_location_on_leg. Qed.
Print Assumptions C15_track_location_on_leg_geodesic.

(* stepping from a by b equals locating a + b: whenever a step inside the track is answered … *)
Theorem C15_step_is_location_of_sum :
  forall (g : track RNum) (a b : R) p z,
    @contains RNum g a && @contains RNum g (a + b) = true ->
    @step RNum g a b = At p z -> @location RNum g (a + b) = At p z.
Proof. exact step_is_location. Qed.
Print Assumptions C15_step_is_location_of_sum.

(* … and it is answered on every great-circle track (one leg) and whenever overstepping is allowed *)
Theorem C15_step_in_range_answered_great_circle :
  forall (g : track RNum) (az dd a b : R),
    legs g = [(az, dd)] -> 0 <= a -> 0 <= b -> a + b <= @total RNum g -> @step RNum g a b = @location RNum g (a + b).
Proof. exact step_single_leg. Qed.
Print Assumptions C15_step_in_range_answered_great_circle.

Theorem C15_step_in_range_answered_when_overstep_allowed :
  forall (g : track RNum) (a b : R),
    allow g = true -> 0 <= a -> 0 <= b -> a + b <= @total RNum g -> @step RNum g a b = @location RNum g (a + b).
Proof. exact step_in_range_allowed. Qed.
Print Assumptions C15_step_in_range_answered_when_overstep_allowed.

(* stepping past the end (when allowed) continues from the last leg's start along the last leg's azimuth … *)
Theorem C15_overstep_continues_last_leg :
  forall (g : track RNum) (a b : R),
    allow g = true -> 0 <= a -> 0 <= b -> @total RNum g < a + b ->
    @step RNum g a b = let k := (@nlegs RNum g - 1)%nat in
                       let p := PFwd k (@leg_az RNum g k) (a + b - @idx RNum g k) in At p (AInvTo (@nlegs RNum g) p).
Proof. exact step_overstep. Qed.
Print Assumptions C15_overstep_continues_last_leg.

Example C15_overstep_nonvacuous : allow demo_track = true /\ @total RNum demo_track < 3000 + 700.
Proof. exact step_overstep_nonvacuous. Qed.

(* … which is the same curve (same start, same azimuth, distance measured from the same point) as
   [location] uses on the last leg *)
Theorem C15_overstep_same_great_circle_as_last_leg :
  forall (g : track RNum) (d : R), (0 < @nlegs RNum g)%nat ->
    @idx RNum g (@nlegs RNum g - 1) < d < @total RNum g -> 0 <= @idx RNum g (@nlegs RNum g - 1) ->
    (forall i j, (i <= j <= @nlegs RNum g)%nat -> @idx RNum g i <= @idx RNum g j) ->
    exists z z',
      @location RNum g d = At (PFwd (@nlegs RNum g - 1) (@leg_az RNum g (@nlegs RNum g - 1)) (d - @idx RNum g (@nlegs RNum g - 1))) z /\
      @overstep RNum g d = At (PFwd (@nlegs RNum g - 1) (@leg_az RNum g (@nlegs RNum g - 1)) (d - @idx RNum g (@nlegs RNum g - 1))) z'.
Proof. exact overstep_same_curve. Qed.
Print Assumptions C15_overstep_same_great_circle_as_last_leg.

(* the waypoint-crossing refusal is not a clause of the property; what the code does is characterised:
   sound (only when a waypoint lies strictly inside the step) but not complete (never for a step that starts
   exactly on a waypoint, e.g. from 0, however many waypoints it passes) — and in that case the answer is still
   the location of a + b, which is what the property asks of an answered step *)
Theorem C15_cross_refusal_only_when_a_waypoint_is_strictly_inside :
  forall (g : track RNum) (a b : R), @step RNum g a b = Refuse RCross -> exists k, a < @idx RNum g k < a + b.
Proof. exact step_cross_sound. Qed.
Print Assumptions C15_cross_refusal_only_when_a_waypoint_is_strictly_inside.

Theorem C15_step_from_the_start_is_never_cross_refused :
  forall (g : track RNum) (b : R), 0 <= b <= @total RNum g -> @step RNum g 0 b = @location RNum g (0 + b).
Proof. exact step_from_start_is_location. Qed.
Print Assumptions C15_step_from_the_start_is_never_cross_refused.

(* azimuths reported in [0, 360): pyproj reports [-180, 180] *)
Theorem C15_azimuth_in_0_360 :
  forall a : R, -360 <= a < 360 ->
    0 <= @norm360 RNum a < 360 /\ (@norm360 RNum a = a \/ @norm360 RNum a = a + 360).
Proof. intros a H. split; [apply norm360_range; exact H|apply norm360_congruent]. Qed.
Print Assumptions C15_azimuth_in_0_360.

(* out-of-range requests are refused when overstepping is not allowed (and negative ones always) *)
Theorem C15_out_of_range_refused_unless_overstep :
  forall (g : track RNum) (a b d : R),
    (d < 0 \/ @total RNum g < d -> @location RNum g d = Refuse RRange) /\
    (allow g = false -> 0 <= a -> 0 <= b -> @total RNum g < a + b -> @step RNum g a b = Refuse ROutside) /\
    (a < 0 \/ b < 0 -> @step RNum g a b = Refuse RNeg).
Proof.
  intros g a b d. split; [apply location_refused_outside|]. split; [apply step_refused_outside|apply step_refused_negative].
Qed.
Print Assumptions C15_out_of_range_refused_unless_overstep.

(* mission distance (argument order of pyproj: lon, lat, lon, lat) *)
Theorem C15_mission_distance_is_track_length :
  forall (inv4 : R -> R -> R -> R -> R) olon olat dlon dlat,
    evald inv4 (@gc_distance RNum false olon olat dlon dlat) = evald inv4 (@great_circle_leg RNum olon olat dlon dlat).
Proof. exact mission_distance_is_track_length. Qed.
Print Assumptions C15_mission_distance_is_track_length.

Theorem C15_mission_distance_symmetric :
  forall (inv4 : R -> R -> R -> R -> R), (forall x1 y1 x2 y2, inv4 x1 y1 x2 y2 = inv4 x2 y2 x1 y1) ->
    forall b olon olat dlon dlat,
      evald inv4 (@gc_distance RNum b olon olat dlon dlat) = evald inv4 (@gc_distance RNum b dlon dlat olon olat).
Proof. exact mission_distance_symmetric. Qed.
Print Assumptions C15_mission_distance_symmetric.

(* the two theorems above are statements about the SCRIPTS (same four arguments in the same order / a symmetric oracle).
   Bridged to the ground track: with points = (longitude, latitude) pairs and [inv4] the coordinate-wise spelling of the
   same pyproj call as [inv], the mission distance is the total length of the great-circle track between the airports
   (via C15_great_circle_total_is_geodesic_distance), and its symmetry reduces to the symmetry of the geodesic distance
   itself — a law of the oracle (pyproj), spot-checked on every run (evidence: geodesic_law_residuals_m.dist_sym). *)
Theorem C15_mission_distance_is_ground_track_total :
  forall (inv : (R * R) -> (R * R) -> R * R) (inv4 : R -> R -> R -> R -> R),
    (forall a b : R * R, inv4 (fst a) (snd a) (fst b) (snd b) = snd (inv a b)) ->
    forall olon olat dlon dlat al,
      evald inv4 (@gc_distance RNum false olon olat dlon dlat)
      = @total RNum (track_of (R * R) inv [(olon, olat); (dlon, dlat)] al).
Proof. exact mission_distance_is_ground_track_total. Qed.
Print Assumptions C15_mission_distance_is_ground_track_total.

Theorem C15_mission_distance_symmetric_from_geodesic_symmetry :
  forall (inv : (R * R) -> (R * R) -> R * R) (inv4 : R -> R -> R -> R -> R),
    (forall a b : R * R, inv4 (fst a) (snd a) (fst b) (snd b) = snd (inv a b)) ->
    forall olon olat dlon dlat, (forall p q, snd (inv p q) = snd (inv q p)) ->
      evald inv4 (@gc_distance RNum false olon olat dlon dlat) = evald inv4 (@gc_distance RNum false dlon dlat olon olat).
Proof. exact mission_distance_symmetric_from_geodesic. Qed.
Print Assumptions C15_mission_distance_symmetric_from_geodesic_symmetry.

(* azimuths: every azimuth expression the model returns (leg azimuth, inverse from / to the computed point) evaluates to
   a forward azimuth of an inverse problem of the oracle, and what GroundTrack.Point reports is norm360 of it: in [0, 360)
   and congruent mod 360, given pyproj's range.  Real-number statement; in binary64 a tiny negative raw value gives
   exactly 360.0 (Python: -1e-20 % 360.0 == 360.0), which the harness oracle accepts (0 <= az <= 360). *)
Theorem C15_reported_azimuth_in_0_360 :
  forall (P : Type) (inv : P -> P -> R * R) (fwd : P -> R -> R -> P) (dflt : P) wps al a,
    (forall p q, -360 <= fst (inv p q) < 360) ->
    0 <= reported_azimuth P inv fwd dflt wps al a < 360 /\
    (reported_azimuth P inv fwd dflt wps al a = evala P inv fwd dflt wps al a \/
     reported_azimuth P inv fwd dflt wps al a = evala P inv fwd dflt wps al a + 360).
Proof. exact reported_azimuth_range. Qed.
Print Assumptions C15_reported_azimuth_in_0_360.

(* as coded before the repair F13: (lat, lon, lat, lon) *)
Theorem C15_mission_distance_args_before_fix_refuted :
  exists inv4, (forall x1 y1 x2 y2, inv4 x1 y1 x2 y2 = inv4 x2 y2 x1 y1) /\
    exists olon olat dlon dlat,
      evald inv4 (@gc_distance RNum true olon olat dlon dlat) <> evald inv4 (@great_circle_leg RNum olon olat dlon dlat).
Proof. exact mission_distance_args_refuted. Qed.
Print Assumptions C15_mission_distance_args_before_fix_refuted.

Theorem C15_mission_distance_args_before_fix_differs_whenever_oracle_separates :
  forall (inv4 : R -> R -> R -> R -> R) olon olat dlon dlat,
    inv4 olat olon dlat dlon <> inv4 olon olat dlon dlat ->
    evald inv4 (@gc_distance RNum true olon olat dlon dlat) <> evald inv4 (@great_circle_leg RNum olon olat dlon dlat).
Proof. exact mission_distance_args_exchanged_differs. Qed.
Print Assumptions C15_mission_distance_args_before_fix_differs_whenever_oracle_separates.

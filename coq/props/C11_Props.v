(* C11 — property theorems only.  Each is closed by [exact] of a lemma from proofs/C11_Proofs.v (finite-domain
   sweeps over the COMPLETE product of the 13 documented options, computed by the kernel VM and lifted with
   forallb_forall) or from proofs/C01_Proofs.v (the balance laws, for every configuration).

   WHAT THESE THEOREMS DO AND DO NOT ESTABLISH.
   * Closed world.  The failure modes of compute_emissions (one not-implemented branch, two internal errors of the
     code as found, the missing life-cycle datum) were ENUMERATED BY READING THE CODE and written into
     [outcome_of]; [Internal] is produced only under [negb (fixed_* t)].  C11_never_internal_error therefore says
     "the enumerated failure modes are all switched off in the repaired tree", exhaustively over the product — it does
     not discover failure modes.  Only the correspondence (every run: outcome class and key sets of the real call vs
     [outcome_of], quick = pairwise-covering + random + shapes + histories, thorough = all 41 472) and the outcome oracle
     validate the enumeration.  The model has no trajectory-shape dimension: a failure that depends on the shape
     (seeded change C11-2: empty accounting window + MEEM) lives outside it and is caught by the shape flights only.
   * Deviation in [names_configured]: its fourth disjunct accepts [Refused "lifecycle"] — a fuel without the
     life-cycle datum, i.e. a missing input, not an unsupported method; it is accepted as a refusal by name because it
     is a data precondition outside the option product (design.d/C11.md).  Its first two disjuncts (NOx / PMvol methods
     without a handler) are dead today: every member is handled; they are kept so that a dispatcher losing a branch
     keeps the statement meaningful once the tables change.
   * C11_balanced_configs_balance is C01's total and total-fuel laws restated for every configuration (they hold
     whatever the outcome; no premise about the outcome is needed or used).
   STATED GAP: "balanced" includes "finite" in the property text; finiteness is a binary64 notion, not a theorem — it is
   checked on the implementation's outputs by the oracle. *)
From Coq Require Import List Bool String ZArith Reals.
From AV Require Import lib.Num model.C11_Model model.C01_Model proofs.C11_Proofs proofs.C01_Lists proofs.C01_Proofs.
Import ListNotations.
Open Scope string_scope.

(* the enumeration really is the whole product *)
Theorem C11_product_is_complete :
  (forall c : config, In c all_configs) /\ (forall e : env, In e all_envs)
  /\ Z.of_nat (List.length all_configs) = 41472%Z.
Proof. exact (conj all_configs_complete (conj all_envs_complete config_count)). Qed.
Print Assumptions C11_product_is_complete.

(* for the repaired code (fixes F9 and FC11a applied): every configuration, with or without an APU in the
   performance model, running or not, with or without a life-cycle datum in the fuel, either balances or is
   refused by the name of the configured method; never an internal error; switched-off species absent/zero *)
Theorem C11_all_configs_ok : forall c e, ok c e (outcome_of repaired e c) = true.
Proof. exact all_configs_ok. Qed.
Print Assumptions C11_all_configs_ok.

Theorem C11_never_internal_error : forall c e, is_internal (outcome_of repaired e c) = false.
Proof. exact never_internal. Qed.
Print Assumptions C11_never_internal_error.

Theorem C11_refusals_name_the_method : forall c e n, outcome_of repaired e c = Refused n ->
  names_configured c e n = true.
Proof. exact refusals_name_the_method. Qed.
Print Assumptions C11_refusals_name_the_method.

Theorem C11_refused_iff_foa3_or_no_lifecycle_datum : forall c e,
  match outcome_of repaired e c with
  | Refused n => (pmnvol_m c = PN_FOA3 /\ n = "foa3")
                 \/ (pmnvol_m c <> PN_FOA3 /\ n = "lifecycle" /\ co2_on c = true /\ lifecycle_on c = true
                     /\ lifecycle_data e = false)
  | Balanced _ _ _ _ lc => pmnvol_m c <> PN_FOA3 /\ lc = (co2_on c && lifecycle_on c)
  | Internal _ => False
  end.
Proof. exact refused_iff_foa3_or_no_lifecycle_datum. Qed.
Print Assumptions C11_refused_iff_foa3_or_no_lifecycle_datum.

Theorem C11_switched_off_species_absent_or_zero : forall c e tr lt ap gs lc s,
  outcome_of repaired e c = Balanced tr lt ap gs lc -> governing_on c s = false ->
  mem s tr = false /\ (mem s lt = false \/ lto_zero_has c s = true).
Proof. exact switched_off_species_absent_or_zero. Qed.
Print Assumptions C11_switched_off_species_absent_or_zero.

Theorem C11_enabled_species_table_reading : forall c s, enabled_gen enabled_table c s = enabled c s.
Proof. exact enabled_table_correct. Qed.
Print Assumptions C11_enabled_species_table_reading.

(* C01's laws hold for EVERY configuration and all numeric inputs — in particular for every configuration whose
   outcome is Balanced.  (A corollary of C01, restated here; it has no premise about the outcome.) *)
Theorem C11_balanced_configs_balance : forall (x : @inputs RNum),
  (forall s, I_total x s =
     (Rsum (gl (I_traj_em x s)) + Rtm_sum (gtm (I_lto_em x s)) + gr (I_apu_em x s) + gr (I_gse_em x s)
      + match s with CO2 => I_lifecycle x | _ => 0 end)%R)
  /\ I_total_fuel x = (I_traj_fuel x + I_lto_fuel x + I_apu_fuel x + I_gse_fuel x)%R.
Proof. intros x. split; [exact (total_eq_parts x)|exact (total_fuel_eq_components x)]. Qed.
Print Assumptions C11_balanced_configs_balance.

(* ---- the code as found: two classes of internal error, and no other ---- *)
Theorem C11_apu_reads_missing_sox_before_fix_refuted :
  exists e c, outcome_of as_found e c = Internal "KeyError:SO2" /\ ok c e (outcome_of as_found e c) = false.
Proof. exact apu_reads_missing_sox_refuted. Qed.
Print Assumptions C11_apu_reads_missing_sox_before_fix_refuted.

Theorem C11_pmvol_foa3_internal_error_before_fix_refuted :
  exists e c, outcome_of as_found e c = Internal "AttributeError:thrust_percentage"
              /\ ok c e (outcome_of as_found e c) = false.
Proof. exact pmvol_foa3_internal_error_refuted. Qed.
Print Assumptions C11_pmvol_foa3_internal_error_before_fix_refuted.

Theorem C11_as_found_failures_characterised : forall c e, ok c e (outcome_of as_found e c) = false ->
  pmvol_m c = PV_FOA3 \/ (sox_on c = false /\ apu_on c = true /\ apu_present e = true /\ apu_running e = true).
Proof. exact as_found_failures_characterised. Qed.
Print Assumptions C11_as_found_failures_characterised.

(* ---- non-vacuity ---- *)
Example C11_nonvacuous_balanced :
  exists tr lt ap gs, outcome_of repaired (mkEnv true true true) default_config = Balanced tr lt ap gs true
                      /\ mem NOx tr = true /\ mem SO2 lt = true /\ mem CO2 ap = true.
Proof. vm_compute. do 4 eexists. repeat split; reflexivity. Qed.

Example C11_nonvacuous_refused_and_switched_off :
  outcome_of repaired (mkEnv true true true)
    (mkConfig CD_LTO true true true G_BFFM2 G_BFFM2 G_BFFM2 PV_FOA3 PN_FOA3 true true true) = Refused "foa3"
  /\ governing_on (mkConfig CD_LTO true true false G_NONE G_BFFM2 G_BFFM2 PV_FOA3 PN_MEEM true true true) SO2 = false
  /\ governing_on (mkConfig CD_LTO true true false G_NONE G_BFFM2 G_BFFM2 PV_FOA3 PN_MEEM true true true) NO = false.
Proof. vm_compute. repeat split; reflexivity. Qed.

(* C11 — property theorems only.  Each is closed by [exact] of a lemma from proofs/C11_Proofs.v (finite-domain
   sweeps over the COMPLETE product of the 13 documented options, computed by the kernel VM and lifted with
   forallb_forall) or from proofs/C01_Proofs.v (the balance laws, for every configuration). *)
From Coq Require Import List Bool String ZArith Reals.
From AV Require Import lib.Num model.C11_Model model.C01_Model proofs.C11_Proofs proofs.C01_Lists proofs.C01_Proofs.
Import ListNotations.
Open Scope string_scope.

(* the enumeration really is the whole product *)
Theorem C11_product_is_complete :
  (forall c : config, In c all_configs) /\ (forall e : env, In e all_envs)
  /\ Z.of_nat (List.length all_configs) = 41472%Z.
Proof. exact (conj all_configs_complete (conj all_envs_complete config_count)). Qed.
Print Assumptions C11_product_is_complete.

(* for the repaired code (fixes F9 and FC11a applied): every configuration, with or without an APU in the
   performance model, running or not, with or without a life-cycle datum in the fuel, either balances or is
   refused by the name of the configured method; never an internal error; switched-off species absent/zero *)
Theorem C11_all_configs_ok : forall c e, ok c e (outcome_of repaired e c) = true.
Proof. exact all_configs_ok. Qed.
Print Assumptions C11_all_configs_ok.

Theorem C11_never_internal_error : forall c e, is_internal (outcome_of repaired e c) = false.
Proof. exact never_internal. Qed.
Print Assumptions C11_never_internal_error.

Theorem C11_refusals_name_the_method : forall c e n, outcome_of repaired e c = Refused n ->
  names_configured c e n = true.
Proof. exact refusals_name_the_method. Qed.
Print Assumptions C11_refusals_name_the_method.

Theorem C11_refused_iff_foa3_or_no_lifecycle_datum : forall c e,
  match outcome_of repaired e c with
  | Refused n => (pmnvol_m c = PN_FOA3 /\ n = "foa3")
                 \/ (pmnvol_m c <> PN_FOA3 /\ n = "lifecycle" /\ co2_on c = true /\ lifecycle_on c = true
                     /\ lifecycle_data e = false)
  | Balanced _ _ _ _ lc => pmnvol_m c <> PN_FOA3 /\ lc = (co2_on c && lifecycle_on c)
  | Internal _ => False
  end.
Proof. exact refused_iff_foa3_or_no_lifecycle_datum. Qed.
Print Assumptions C11_refused_iff_foa3_or_no_lifecycle_datum.

Theorem C11_switched_off_species_absent_or_zero : forall c e tr lt ap gs lc s,
  outcome_of repaired e c = Balanced tr lt ap gs lc -> governing_on c s = false ->
  mem s tr = false /\ (mem s lt = false \/ lto_zero_has c s = true).
Proof. exact switched_off_species_absent_or_zero. Qed.
Print Assumptions C11_switched_off_species_absent_or_zero.

Theorem C11_enabled_species_table_reading : forall c s, enabled_gen enabled_table c s = enabled c s.
Proof. exact enabled_table_correct. Qed.
Print Assumptions C11_enabled_species_table_reading.

(* a configuration that runs yields a balanced inventory: C01's laws hold for EVERY configuration, so in
   particular for every one whose outcome is Balanced (whatever the numeric inputs) *)
Theorem C11_balanced_configs_balance : forall (x : @inputs RNum) e tr lt ap gs lc,
  outcome_of repaired e (i_cfg x) = Balanced tr lt ap gs lc ->
  (forall s, I_total x s =
     (Rsum (gl (I_traj_em x s)) + Rtm_sum (gtm (I_lto_em x s)) + gr (I_apu_em x s) + gr (I_gse_em x s)
      + match s with CO2 => I_lifecycle x | _ => 0 end)%R)
  /\ I_total_fuel x = (I_traj_fuel x + I_lto_fuel x + I_apu_fuel x + I_gse_fuel x)%R.
Proof. intros x e tr lt ap gs lc _. split; [exact (total_eq_parts x)|exact (total_fuel_eq_components x)]. Qed.
Print Assumptions C11_balanced_configs_balance.

(* ---- the code as found: two classes of internal error, and no other ---- *)
Theorem C11_apu_reads_missing_sox_before_fix_refuted :
  exists e c, outcome_of as_found e c = Internal "KeyError:SO2" /\ ok c e (outcome_of as_found e c) = false.
Proof. exact apu_reads_missing_sox_refuted. Qed.
Print Assumptions C11_apu_reads_missing_sox_before_fix_refuted.

Theorem C11_pmvol_foa3_internal_error_before_fix_refuted :
  exists e c, outcome_of as_found e c = Internal "AttributeError:thrust_percentage"
              /\ ok c e (outcome_of as_found e c) = false.
Proof. exact pmvol_foa3_internal_error_refuted. Qed.
Print Assumptions C11_pmvol_foa3_internal_error_before_fix_refuted.

Theorem C11_as_found_failures_characterised : forall c e, ok c e (outcome_of as_found e c) = false ->
  pmvol_m c = PV_FOA3 \/ (sox_on c = false /\ apu_on c = true /\ apu_present e = true /\ apu_running e = true).
Proof. exact as_found_failures_characterised. Qed.
Print Assumptions C11_as_found_failures_characterised.

(* ---- non-vacuity ---- *)
Example C11_nonvacuous_balanced :
  exists tr lt ap gs, outcome_of repaired (mkEnv true true true) default_config = Balanced tr lt ap gs true
                      /\ mem NOx tr = true /\ mem SO2 lt = true /\ mem CO2 ap = true.
Proof. vm_compute. do 4 eexists. repeat split; reflexivity. Qed.

Example C11_nonvacuous_refused_and_switched_off :
  outcome_of repaired (mkEnv true true true)
    (mkConfig CD_LTO true true true G_BFFM2 G_BFFM2 G_BFFM2 PV_FOA3 PN_FOA3 true true true) = Refused "foa3"
  /\ governing_on (mkConfig CD_LTO true true false G_NONE G_BFFM2 G_BFFM2 PV_FOA3 PN_MEEM true true true) SO2 = false
  /\ governing_on (mkConfig CD_LTO true true false G_NONE G_BFFM2 G_BFFM2 PV_FOA3 PN_MEEM true true true) NO = false.
Proof. vm_compute. repeat split; reflexivity. Qed.

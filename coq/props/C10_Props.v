(* C10 — rejected or interrupted store operations lose and corrupt nothing.  Property theorems only. *)
(* Scope of the model these theorems are about (shared by C07 C08 C09 C10):
   - ONE live TrajectoryStore handle at a time; a merge runs with no handle open;
   - the refinement theorem is about worlds whose file system holds store files only ([Inv]: no merged directory
     elsewhere); merged directories are covered by the merge / merged-read theorems (C09, C10);
   - a fault is an exception raised IN FRONT of a file-system call (the call has no effect); os.rename is atomic and
     stays on one device; a crash inside rename / json.dump is not modelled;
   - payloads are reduced to a tag, a flight id, the identity of the field sets and a size; the contents of the other
     fields are C03's subject. *)
(* "Can be retried" is proved for REFUSED merges only (C10_refused_merge_changes_nothing / _retryable: nothing is left
   behind).  After an INTERRUPTION what is proved is safety (every input intact in exactly one place, nothing else
   touched) and honest metadata (C10_merge_crash_safe, C10_merge_outcome) — NOT roll-back: the inputs already moved stay
   in the output directory and a retry into that directory is refused. *)
From Coq Require Import ZArith List Bool.
From AV Require Import model.Store_Model proofs.Store_Proofs proofs.Store_Refine
                       proofs.Store_MergeProofs proofs.Store_MergedReads proofs.Store_Corollaries.
Import ListNotations.

(* an addition answered with ANY error (invalid trajectory, in-memory store that would have to evict, value
   larger than the whole cache, read-only store) leaves the whole machine — counter, cache, flags, every
   file — exactly as it was *)
Theorem C10_rejected_add_is_noop :
  forall w t w' e, step fixed_cfg w (Add t) = (w', OErr e) -> w' = w.
Proof. exact add_error_noop. Qed.
Print Assumptions C10_rejected_add_is_noop.

(* and every invalid trajectory (missing required value, other field sets, inconsistent identifier use)
   IS answered with an error, at every position of every history *)
Theorem C10_invalid_add_is_rejected :
  forall w h t, Inv w -> w_h w = Some h -> h_mode h <> MRead ->
    acceptable (model_def (w_fs w) h) t = false ->
    exists e, step fixed_cfg w (Add t) = (w, OErr e) /\ coarse (OErr e) = OErr EReject.
Proof. exact invalid_add_is_rejected. Qed.
Print Assumptions C10_invalid_add_is_rejected.

(* hence whatever follows — next index, lengths, contents on every index, a later reopen — is what the
   list of the SUCCESSFUL additions gives (the specification does not move on a rejected addition) *)
Theorem C10_history_with_rejections_refines_list :
  forall ops w, Inv w -> hist_ok (abs w) ops ->
    map coarse (snd (run fixed_cfg w ops)) = snd (spec_run (abs w) ops).
Proof. intros ops w I H. exact (proj2 (proj2 (run_refines ops w I H))). Qed.
Print Assumptions C10_history_with_rejections_refines_list.

Theorem C10_spec_rejected_add_changes_nothing :
  forall s t s' e, spec_step s (Add t) = (s', OErr e) -> s' = s.
Proof. exact spec_add_rejected. Qed.
Print Assumptions C10_spec_rejected_add_changes_nothing.

(* a merge made to fail in front of ANY of its file-system calls (budget b = number of calls allowed;
   None = no failure), whatever its arguments: every input store is intact in exactly one place — its own
   path, or the output directory under its own name —, nothing else is touched, and a metadata file that
   lists stores lists exactly the inputs, all present, with the index if the inputs are identified *)
Theorem C10_merge_crash_safe :
  forall fs0 outp ins b, flookup outp fs0 = None ->
    Safe fs0 outp ins (fst (merge_run fixed_cfg fs0 outp ins b)).
Proof. exact merge_crash_safe. Qed.
Print Assumptions C10_merge_crash_safe.

(* every possible outcome of a merge: unchanged file system and an error; or a legal intermediate state
   with the injected failure; or the complete directory *)
Theorem C10_merge_outcome :
  forall fs0 outp ins b,
    let res := merge_run fixed_cfg fs0 outp ins b in
    (fst res = fs0 /\ exists e, snd res = OErr e) \/
    (Pre fs0 outp ins /\
     ((At fs0 outp ins (fst res) /\ snd res = OErr ECrash /\ b <> None) \/
      (Complete fs0 outp ins (fst res) /\ snd res = OUnit))).
Proof. exact merge_outcome. Qed.
Print Assumptions C10_merge_outcome.

(* liveness: preconditions met and no fault => the merge succeeds (so "refuse everything" is not a model of C10) *)
Theorem C10_merge_succeeds_when_preconditions_hold :
  forall fs0 outp ins, Pre fs0 outp ins ->
    snd (merge_run fixed_cfg fs0 outp ins None) = OUnit /\
    Complete fs0 outp ins (fst (merge_run fixed_cfg fs0 outp ins None)).
Proof. exact merge_succeeds. Qed.
Print Assumptions C10_merge_succeeds_when_preconditions_hold.

(* a refused merge (any validation rule) changes nothing, so it can be retried with corrected arguments
   (REFUSED merges only; see the header for interruptions) *)
Theorem C10_refused_merge_changes_nothing :
  forall fs0 outp ins fs' e, merge_run fixed_cfg fs0 outp ins None = (fs', OErr e) -> fs' = fs0.
Proof. exact merge_refused_unchanged. Qed.
Print Assumptions C10_refused_merge_changes_nothing.

Theorem C10_refused_merge_retryable :
  forall fs0 outp ins fs' e ins2 outp2,
    merge_run fixed_cfg fs0 outp ins None = (fs', OErr e) ->
    merge_run fixed_cfg fs' outp2 ins2 None = merge_run fixed_cfg fs0 outp2 ins2 None.
Proof. exact refused_merge_retryable. Qed.
Print Assumptions C10_refused_merge_retryable.

(* F6 — as found: the rejected addition is counted, cached and half written: length 2 instead of 1, the
   next addition gets index 2, index 1 is unreadable, a reopen shows 3 *)
Theorem C10_rejected_add_before_fix_refuted :
  map coarse (snd (run cfg_F6 empty_world hist_F6)) <> snd (spec_run (abs empty_world) hist_F6) /\
  nth 3 (snd (run cfg_F6 empty_world hist_F6)) OUnit = OLen 2 /\
  nth 4 (snd (run cfg_F6 empty_world hist_F6)) OUnit = OIdx 2 /\
  nth 6 (snd (run cfg_F6 empty_world hist_F6)) OUnit = OErr ECorrupt /\
  nth 9 (snd (run cfg_F6 empty_world hist_F6)) OUnit = OLen 3 /\
  map coarse (snd (run fixed_cfg empty_world hist_F6)) = snd (spec_run (abs empty_world) hist_F6).
Proof. exact rejected_add_refuted. Qed.
Print Assumptions C10_rejected_add_before_fix_refuted.

(* F7 — as found: the refused merge leaves the empty output directory; the corrected retry is refused *)
Theorem C10_refused_merge_leaves_dir_before_fix_refuted :
  exists fs', merge_run cfg_F7 fs_two OUT [P0; P1] None = (fs', OErr EIdMix) /\
              flookup OUT fs' = Some (NDir empty_dir) /\
              merge_run cfg_F7 fs' OUT [P0] None = (fs', OErr EExists) /\
              merge_run fixed_cfg fs_two OUT [P0; P1] None = (fs_two, OErr EIdMix) /\
              snd (merge_run fixed_cfg fs_two OUT [P0] None) = OUnit.
Proof. exact refused_merge_leaves_dir_refuted. Qed.
Print Assumptions C10_refused_merge_leaves_dir_before_fix_refuted.

(* FC10a — as found: the field-set check compares with a cached item; at the start of an append session
   nothing is cached and a trajectory with other field sets is not rejected *)
Theorem C10_append_schema_check_skipped_before_fix_refuted :
  nth 4 (snd (run cfg_C10a empty_world hist_C10a)) OUnit = OIdx 1 /\
  nth 4 (snd (run fixed_cfg empty_world hist_C10a)) OUnit = OErr ESchema /\
  nth 4 (snd (spec_run (abs empty_world) hist_C10a)) OUnit = OErr EReject.
Proof. exact append_schema_check_skipped_refuted. Qed.
Print Assumptions C10_append_schema_check_skipped_before_fix_refuted.

(* non-vacuity: a two-input identified merge failing in front of each of its 10 calls, then completing *)
Example C10_nonvacuous :
  map (fun k => snd (merge_run fixed_cfg fs_three OUT [P0; P1] (Some k))) (seq 0 12)
  = [OErr ECrash; OErr ECrash; OErr ECrash; OErr ECrash; OErr ECrash; OErr ECrash; OErr ECrash; OErr ECrash;
     OErr ECrash; OErr ECrash; OUnit; OUnit].
Proof. exact crash_demo. Qed.

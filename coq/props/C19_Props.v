(* C19 — property theorems only.  Each is closed by [exact] of a lemma from proofs/C19_Proofs.v.
   Real-number semantics of the model text.  The drivers are quantified over an ARBITRARY specific-ground-range
   function [sgr_of] (masses -> m/kg at every point), so everything holds in particular for the BADA-3 one
   ([bada_sgr psec E P pts]) for every parameter set, engine type and flight profile.
   Reading of "consistent": each step of a returned profile is the trapezoid of the burn rates of the iterate the last
   update started from (not of the returned masses themselves) — the fixed point is reached only up to the code's 0.01 %
   stop rule; and the burn rate is fuel flow / ground speed only in the regime 0 < fuel flow <= ground speed (at least
   1 m/kg), otherwise the code integrates 0 (zero or negative flow, or more than 1 kg per metre). *)
From Coq Require Import ZArith Reals List Bool Arith.
From AV Require Import lib.Num model.C19_Model proofs.C19_Proofs proofs.C19_StopRule.
Import ListNotations.
Local Open Scope R_scope.

(* ---- prescribed end of the mass profile ---- *)
Theorem C19_mass_starts_at_prescribed :
  forall (sgr_of : list R -> list R) (ds : list R) n (m0 : R) n_iter, (0 < n)%nat ->
    hd 0 (@iterate_ci RNum sgr_of ds n m0 n_iter) = m0.
Proof. exact iterate_ci_starts_at_prescribed. Qed.
Print Assumptions C19_mass_starts_at_prescribed.

Theorem C19_mass_ends_at_prescribed :
  forall (sgr_of : list R -> list R) (ds : list R) bwrev n (mf : R) n_iter, (0 < n)%nat ->
    last (@iterate_cf RNum sgr_of ds bwrev n mf n_iter) 0 = mf.
Proof. exact iterate_cf_ends_at_prescribed. Qed.
Print Assumptions C19_mass_ends_at_prescribed.

(* ---- mass never increases along the flight (segment lengths >= 0; no condition on flows is needed:
        the code discards negative and sub-unit specific ranges) ---- *)
Theorem C19_mass_nonincreasing_constant_initial :
  forall (sgr_of : list R -> list R) (ds : list R) n (m0 : R) n_iter, all_nonneg ds ->
    noninc (@iterate_ci RNum sgr_of ds n m0 n_iter).
Proof. exact iterate_ci_noninc. Qed.
Print Assumptions C19_mass_nonincreasing_constant_initial.

Theorem C19_mass_nonincreasing_constant_final :
  forall (sgr_of : list R -> list R) (ds : list R) bwrev n (mf : R) n_iter, all_nonneg ds ->
    noninc (@iterate_cf RNum sgr_of ds bwrev n mf n_iter).
Proof. exact iterate_cf_noninc. Qed.
Print Assumptions C19_mass_nonincreasing_constant_final.

Example C19_all_nonneg_nonvacuous : all_nonneg [100; 300].
Proof. exact all_nonneg_nonvacuous. Qed.

(* ---- each step's decrease is the trapezoid of fuel burnt per metre ---- *)
Theorem C19_step_decrease_is_trapezoid :
  forall (mass sgr ds : list R) k, (length ds = length sgr - 1)%nat -> (S k < length sgr)%nat ->
    nth k (@update_forward RNum mass sgr ds) 0 - nth (S k) (@update_forward RNum mass sgr ds) 0
    = nth k ds 0 * (@burn_rate RNum (nth (S k) sgr 0) + @burn_rate RNum (nth k sgr 0)) / 2.
Proof. exact update_forward_step. Qed.
Print Assumptions C19_step_decrease_is_trapezoid.

(* … where fuel per metre is fuel flow / ground speed (for a positive flow not above 1 kg per metre) *)
Theorem C19_burn_rate_is_flow_over_ground_speed :
  forall gs ff : R, 0 < ff -> ff <= gs -> @burn_rate RNum (gs / ff) = ff / gs.
Proof. exact burn_rate_is_flow_over_speed. Qed.
Print Assumptions C19_burn_rate_is_flow_over_ground_speed.

(* composed for the BADA-3 flows: every step of what the constant-initial-mass driver returns is
   ds_k * (burn_{k+1} + burn_k) / 2 with burn = burn_rate (sgr_point …) evaluated at an iterate [prev] of length n whose head is
   the prescribed mass — and burn is fuel flow / ground speed in the regime the code integrates (0 < ff <= gs), else 0.
   "Consistent" therefore holds with the flows of the PREVIOUS iterate, i.e. up to the 0.01 % stop rule of the iteration
   (the returned masses and the masses the flows were evaluated at differ by at most that much once the rule has fired). *)
Theorem C19_constant_initial_steps_are_bada_trapezoids :
  forall psec E (P : params RNum) (pts : list (point RNum)) (ds : list R) (dpt : point RNum) n (m0 : R) n_iter,
    length pts = n -> length ds = (n - 1)%nat -> (0 < n)%nat ->
    exists prev, length prev = n /\ hd 0 prev = m0 /\
      forall k, (S k < n)%nat ->
        nth k (@iterate_ci RNum (@bada_sgr RNum psec E P pts) ds n m0 n_iter) 0
        - nth (S k) (@iterate_ci RNum (@bada_sgr RNum psec E P pts) ds n m0 n_iter) 0
        = nth k ds 0 * (@burn_rate RNum (@sgr_point RNum psec E P (nth (S k) pts dpt) (nth (S k) prev 0))
                        + @burn_rate RNum (@sgr_point RNum psec E P (nth k pts dpt) (nth k prev 0))) / 2.
Proof. exact iterate_ci_steps_bada. Qed.
Print Assumptions C19_constant_initial_steps_are_bada_trapezoids.

Theorem C19_burn_rate_at_a_point_is_flow_over_ground_speed :
  forall psec E (P : params RNum) (pt : point RNum) (m : R),
    0 < @fuel_flow RNum psec E P pt m <= t_gs pt ->
    @burn_rate RNum (@sgr_point RNum psec E P pt m) = @fuel_flow RNum psec E P pt m / t_gs pt.
Proof. exact burn_rate_at_point. Qed.
Print Assumptions C19_burn_rate_at_a_point_is_flow_over_ground_speed.

(* … and what every driver returns is such an update of one of its iterates *)
Theorem C19_constant_initial_result_is_an_update :
  forall (sgr_of : list R -> list R) (ds : list R) n (m0 : R) n_iter,
    exists prev, @iterate_ci RNum sgr_of ds n m0 n_iter = @update_forward RNum prev (sgr_of prev) ds.
Proof. exact iterate_ci_is_update. Qed.
Print Assumptions C19_constant_initial_result_is_an_update.

Theorem C19_constant_final_result_is_an_update :
  forall (sgr_of : list R -> list R) (ds : list R) bwrev n (mf : R) n_iter,
    exists prev, @iterate_cf RNum sgr_of ds bwrev n mf n_iter = @update_backward RNum bwrev prev (sgr_of prev) ds.
Proof. exact iterate_cf_is_update. Qed.
Print Assumptions C19_constant_final_result_is_an_update.

(* backward: walking back from the prescribed final mass, step k (from the end) adds the trapezoid of the
   reversed burn rates with length [ds' k]; ds' = rev ds when the lengths are reversed with the integrand *)
Theorem C19_backward_step_is_trapezoid :
  forall b (mass sgr ds : list R) k, (length ds = length sgr - 1)%nat -> (S k < length sgr)%nat ->
    let r := rev (@update_backward RNum b mass sgr ds) in
    let ys := rev (map (@burn_rate RNum) sgr) in
    let ds' := if b then rev ds else ds in
    nth (S k) r 0 - nth k r 0 = nth k ds' 0 * (nth (S k) ys 0 + nth k ys 0) / 2.
Proof. exact update_backward_step. Qed.
Print Assumptions C19_backward_step_is_trapezoid.

(* as coded (FC19a): with non-uniform segment lengths the backward update charges the first segment (100 m)
   with the last segment's length (300 m) *)
Theorem C19_backward_nonuniform_before_fix_refuted :
  let l := @update_backward RNum false [1000; 1000; 1000] [100; 100; 100] [100; 300] in
  nth 0 l 0 - nth 1 l 0 <> 100 * (@burn_rate RNum 100 + @burn_rate RNum 100) / 2.
Proof. exact backward_as_coded_first_step_wrong. Qed.
Print Assumptions C19_backward_nonuniform_before_fix_refuted.

Theorem C19_backward_nonuniform_repaired :
  let l := @update_backward RNum true [1000; 1000; 1000] [100; 100; 100] [100; 300] in
  nth 0 l 0 - nth 1 l 0 = 100 * (@burn_rate RNum 100 + @burn_rate RNum 100) / 2.
Proof. exact backward_repaired_first_step. Qed.
Print Assumptions C19_backward_nonuniform_repaired.

(* ---- thrust ---- *)
Theorem C19_calc_thrust_reading :
  forall (N : Num) (E : engine) (P : params N) (m temp alt v rocd acc : T N) (cr : bool),
    @calc_thrust N E P m temp alt v rocd acc cr
    = @limit_thrust N (@total_energy_at N P m temp alt v rocd acc) (@max_thrust_at N E P alt v temp cr)
                      (@descent_thrust_at N E P alt v temp).
Proof. exact calc_thrust_reading. Qed.
Print Assumptions C19_calc_thrust_reading.

Theorem C19_thrust_le_max :
  forall (E : engine) (P : params RNum) (m temp alt v rocd acc : R) cr,
    0 <= @max_climb_thrust RNum E P alt v temp ->
    0 <= p_c_tdes_low P <= p_c_tcr P -> 0 <= p_c_tdes_high P <= p_c_tcr P -> p_c_tcr P <= 1 ->
    @calc_thrust RNum E P m temp alt v rocd acc cr <= @max_thrust_at RNum E P alt v temp cr.
Proof. exact thrust_le_max. Qed.
Print Assumptions C19_thrust_le_max.

Example C19_thrust_le_max_nonvacuous : @limit_thrust RNum 250 100 7 = 100.
Proof. exact limit_le_max_nonvacuous. Qed.

Theorem C19_negative_thrust_replaced :
  forall (E : engine) (P : params RNum) (m temp alt v rocd acc : R) cr,
    @total_energy_at RNum P m temp alt v rocd acc < 0 ->
    @calc_thrust RNum E P m temp alt v rocd acc cr = @descent_thrust_at RNum E P alt v temp.
Proof. exact negative_thrust_replaced. Qed.
Print Assumptions C19_negative_thrust_replaced.

Example C19_negative_thrust_nonvacuous : @limit_thrust RNum (-5) 100 7 = 7.
Proof. exact limit_negative_nonvacuous. Qed.

Theorem C19_thrust_in_range_is_total_energy :
  forall te maxT desc : R, 0 <= te <= maxT -> @limit_thrust RNum te maxT desc = te.
Proof. exact limit_in_range_unchanged. Qed.
Print Assumptions C19_thrust_in_range_is_total_energy.

(* ---- fuel flow: cruise correction only in cruise (all three engine types, every number domain) ---- *)
Theorem C19_cruise_factor_only_in_cruise :
  forall (N : Num) (psec : bool) (E : engine) (P : params N) (pt : point N) (m : T N),
    @fuel_flow N psec E P pt m =
      if t_cruise pt
      then @mul N (@nominal_fuel_flow N psec E P (@point_thrust N E P pt m) (t_vtas pt)) (p_c_fcr P)
      else @nominal_fuel_flow N psec E P (@point_thrust N E P pt m) (t_vtas pt).
Proof. exact cruise_factor_only_in_cruise. Qed.
Print Assumptions C19_cruise_factor_only_in_cruise.

(* FC19b: the piston flow as coded before the repair is 60 times the per-second flow C_f1 / 60 *)
Theorem C19_piston_flow_before_fix_is_60_times_per_second_flow :
  forall (P : params RNum) (thr v : R),
    @nominal_fuel_flow RNum true Piston P thr v = p_c_f1 P / 60 /\
    @nominal_fuel_flow RNum false Piston P thr v = 60 * @nominal_fuel_flow RNum true Piston P thr v.
Proof. exact piston_flow_per_second. Qed.
Print Assumptions C19_piston_flow_before_fix_is_60_times_per_second_flow.

(* ---- fuel-dependent initial mass ---- *)
Theorem C19_initial_mass_le_mtow :
  forall (sgr_of : list R -> list R) (ds : list R) (new_initial : R -> R) (mtow : R),
    (forall fb, new_initial fb <= mtow) ->
    forall sh n (est : R) n_iter, (0 < n_iter)%nat ->
      hd 0 (@iterate_fd RNum sgr_of ds sh new_initial n est n_iter) <= mtow.
Proof. exact iterate_fd_initial_le_mtow. Qed.
Print Assumptions C19_initial_mass_le_mtow.

(* n_iter = 0 performs no iteration: the result is the single update of the caller's estimate and starts at it
   (so the MTOW clause, a statement about the ITERATION, has the hypothesis 0 < n_iter above) *)
Theorem C19_no_iteration_returns_update_of_estimate :
  forall (sgr_of : list R -> list R) (ds : list R) (new_initial : R -> R) sh n (est : R), (0 < n)%nat ->
    @iterate_fd RNum sgr_of ds sh new_initial n est 0%nat
      = @update_forward RNum (repeat est n) (sgr_of (repeat est n)) ds /\
    hd 0 (@iterate_fd RNum sgr_of ds sh new_initial n est 0%nat) = est.
Proof. exact iterate_fd_zero_iterations. Qed.
Print Assumptions C19_no_iteration_returns_update_of_estimate.

Theorem C19_new_initial_mass_rules_are_capped :
  forall mtow oew mpl lf r fb : R,
    @new_initial_fraction RNum mtow oew mpl lf r fb <= mtow /\ @new_initial_value RNum mtow oew mpl lf r fb <= mtow.
Proof. intros. split; [apply new_initial_fraction_capped|apply new_initial_value_capped]. Qed.
Print Assumptions C19_new_initial_mass_rules_are_capped.

(* as coded (F18): only mass[0] is overwritten after the update.  Two points 1000 m apart, 100 m/kg, estimate
   1000 kg, new initial mass 500 + burn, one iteration: [510; 990] — the mass rises by 480 kg on the first
   step and that step is not the 10 kg trapezoid *)
Theorem C19_fuel_dependent_first_step_before_fix_refuted :
  (exists l, l = @iterate_fd RNum w_sgr [1000] false w_new 2 1000 1 /\ nth 0 l 0 < nth 1 l 0) /\
  (let l := @iterate_fd RNum w_sgr [1000] false w_new 2 1000 1 in
   nth 0 l 0 - nth 1 l 0 <> 1000 * (@burn_rate RNum 100 + @burn_rate RNum 100) / 2).
Proof. split; [exact fd_overwrite_mass_increases|exact fd_overwrite_first_step_not_trapezoid]. Qed.
Print Assumptions C19_fuel_dependent_first_step_before_fix_refuted.

(* repaired (whole vector shifted): never increases, and every step is a step of an update *)
Theorem C19_fuel_dependent_repaired_nonincreasing :
  forall (sgr_of : list R -> list R) (ds : list R) (new_initial : R -> R) n (est : R) n_iter, all_nonneg ds ->
    noninc (@iterate_fd RNum sgr_of ds true new_initial n est n_iter).
Proof. exact iterate_fd_shift_noninc. Qed.
Print Assumptions C19_fuel_dependent_repaired_nonincreasing.

Theorem C19_fuel_dependent_repaired_steps_are_trapezoids :
  forall (sgr_of : list R -> list R) (ds : list R) (new_initial : R -> R) n (est : R) n_iter,
    steps_of_update sgr_of ds (@iterate_fd RNum sgr_of ds true new_initial n est n_iter).
Proof. exact iterate_fd_shift_steps. Qed.
Print Assumptions C19_fuel_dependent_repaired_steps_are_trapezoids.

(* ---- the stop rule of the backward driver must watch the FREE end ----
   [loop_cf_end] is the model's backward loop with the 0.01 % test applied to the FINAL mass (which every backward pass
   re-installs as prescribed) instead of the initial mass.  For every specific-range function, every profile and every
   number of passes allowed it returns after ONE pass — the requested n_iter is ignored — (1, 2); and a concrete
   two-point flight shows the free end still moving by 12.5 % when it does (3).  Formal content of seeded/C19-11; the
   correspondence runs long, heavy constant-final-mass flights with n_iter in {3, 5, 10} and demands that an early return
   be justified by the free end or by a fixed point. *)
Theorem C19_stop_rule_on_prescribed_end_ignores_n_iter_refuted :
  (forall (sgr_of : list R -> list R) (ds : list R) bwrev k mass,
     loop_cf_end sgr_of ds bwrev mass (last mass 0) (S k) = @update_backward RNum bwrev mass (sgr_of mass) ds) /\
  (forall (sgr_of : list R -> list R) (ds : list R) bwrev k1 k2 mass,
     loop_cf_end sgr_of ds bwrev mass (last mass 0) (S k1) = loop_cf_end sgr_of ds bwrev mass (last mass 0) (S k2)) /\
  (p1_demo = [200; 100] /\ p2_demo = [175; 100] /\
   loop_cf_end sgr_demo [1000] false p1_demo (last p1_demo 0) 9 = p2_demo /\
   loop_cf_end sgr_demo [1000] false p1_demo (last p1_demo 0) 1 = p2_demo /\
   0.01 < @pct_change RNum (hd 0 p2_demo) (hd 0 p1_demo)).
Proof. exact (conj loop_cf_end_stops_at_once (conj loop_cf_end_ignores_n_iter stop_rule_demo)). Qed.
Print Assumptions C19_stop_rule_on_prescribed_end_ignores_n_iter_refuted.

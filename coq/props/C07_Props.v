(* C07 — a trajectory store is an append-only list: indices follow insertion order, across sessions and
   cache evictions.  Property theorems only; each is closed by [exact] of a lemma of proofs/Store_*.v. *)
(* Scope of the model these theorems are about (shared by C07 C08 C09 C10):
   - ONE live TrajectoryStore handle at a time; a merge runs with no handle open;
   - the refinement theorem is about worlds whose file system holds store files only ([Inv]: no merged directory
     elsewhere); merged directories are covered by the merge / merged-read theorems (C09, C10);
   - a fault is an exception raised IN FRONT of a file-system call (the call has no effect); os.rename is atomic and
     stays on one device; a crash inside rename / json.dump is not modelled;
   - payloads are reduced to a tag, a flight id, the identity of the field sets and a size; the contents of the other
     fields are C03's subject. *)
(* "Regardless of how small the in-memory cache is": in the specification neither reads nor additions to a FILE-BACKED
   store depend on the cache capacity; only an in-memory store may refuse for lack of room (EFull, or ETooLarge for a
   trajectory larger than the whole store).  The code as found refused both reads (FC07a) and file-backed additions
   (FC07b) of a trajectory larger than the cache: C07_oversized_read_before_fix_refuted, C07_oversized_add_before_fix_refuted. *)
From Coq Require Import ZArith List Bool.
From AV Require Import model.Store_Model proofs.Store_Proofs proofs.Store_Refine proofs.Store_Corollaries.
Import ListNotations.

(* For EVERY history of create / create-in-memory / open / append / add (valid or invalid) / [] / len /
   iterate / sync / close / lookup operations on any number of paths, interleaved with ANY evictions
   ([Evict keep] drops any subset of the cache at any moment; [Iter keeps] evicts between the items),
   started in any reachable world, the repaired machine answers exactly what the specification answers:
   per path an append-only list, [i] = i-th element or IndexError, len = length, iteration = the list.
   (coarse only forgets WHICH of the three rejection errors an invalid trajectory got.)
   [hist_ok] asks only that a store holds no identifier twice at the moment an identifier is looked up. *)
Theorem C07_store_refines_list :
  forall ops w, Inv w -> hist_ok (abs w) ops ->
    Inv (fst (run fixed_cfg w ops)) /\
    abs (fst (run fixed_cfg w ops)) = fst (spec_run (abs w) ops) /\
    map coarse (snd (run fixed_cfg w ops)) = snd (spec_run (abs w) ops).
Proof. exact run_refines. Qed.
Print Assumptions C07_store_refines_list.

Theorem C07_empty_world_is_reachable : Inv empty_world.
Proof. exact Inv_empty. Qed.
Print Assumptions C07_empty_world_is_reachable.

(* the specification, read back: a successful addition returns the old length and appends *)
Theorem C07_spec_add_appends :
  forall s h t s' n, s_h s = Some h -> spec_step s (Add t) = (s', OIdx n) ->
    n = length (s_items s h) /\
    exists h', s_h s' = Some h' /\ s_items s' h' = s_items s h ++ [(t_tag t, t_fid t)].
Proof. exact spec_add_appends. Qed.
Print Assumptions C07_spec_add_appends.

Theorem C07_spec_index_is_nth_or_out_of_range :
  forall s h i, s_h s = Some h ->
    spec_step s (Get i) = (s, match nth_error (s_items s h) i with Some (t, _) => OItem t | None => OErr EIndex end).
Proof. exact spec_get. Qed.
Print Assumptions C07_spec_index_is_nth_or_out_of_range.

Theorem C07_spec_len_is_length :
  forall s h, s_h s = Some h -> spec_step s Len = (s, OLen (length (s_items s h))).
Proof. exact spec_len. Qed.
Print Assumptions C07_spec_len_is_length.

Theorem C07_spec_iteration_is_the_list :
  forall s h k, s_h s = Some h -> spec_step s (Iter k) = (s, OItems (map fst (s_items s h)) None).
Proof. exact spec_iter. Qed.
Print Assumptions C07_spec_iteration_is_the_list.

Theorem C07_spec_ignores_evictions :
  forall s h k, s_h s = Some h -> spec_step s (Evict k) = (s, OUnit).
Proof. exact spec_evict. Qed.
Print Assumptions C07_spec_ignores_evictions.

(* an in-memory store that would have to evict refuses the addition and keeps everything (trajectories are
   charged their own size [t_size]; the store holds [h_used] of its capacity) *)
Theorem C07_inmemory_refuses_when_full :
  forall w h cap t, Inv w -> w_h w = Some h -> h_src h = SrcMem cap ->
    t_size t <= cap -> cap < h_used h + t_size t -> acceptable (model_def (w_fs w) h) t = true ->
    step fixed_cfg w (Add t) = (w, OErr EFull).
Proof. exact inmemory_refuses_when_full. Qed.
Print Assumptions C07_inmemory_refuses_when_full.

(* ANY refused addition — eviction refusal in memory, a value larger than the whole cache ("value too large",
   file-backed or in memory), an invalid trajectory, a read-only store — leaves the whole machine, the
   next-index counter included, exactly as it was; with C07_store_refines_list: the next successful addition
   gets the next index and the length stays the number of successful additions *)
Theorem C07_refused_add_is_noop :
  forall w t w' e, step fixed_cfg w (Add t) = (w', OErr e) -> w' = w.
Proof. exact add_error_noop. Qed.
Print Assumptions C07_refused_add_is_noop.

(* non-vacuity with trajectories of different sizes: in memory (capacity 10) sizes 4, 4 fit, 4 is refused (full),
   11 is refused (too large), 2 still fits and gets index 2; file-backed with a cache of 5: sizes 2, 9, 3 are ALL
   accepted (9 is written without being cached) and read back; a reopen shows three items *)
Example C07_refusals_with_sizes_nonvacuous :
  hist_ok (abs empty_world) hist_sizes /\
  snd (run fixed_cfg empty_world hist_sizes) =
  [OUnit; OIdx 0; OIdx 1; OErr EFull; OErr ETooLarge; OIdx 2; OLen 3; OItem 4; OErr EIndex; OUnit;
   OUnit; OIdx 0; OIdx 1; OIdx 2; OLen 3; OUnit; OItem 5; OItem 7; OUnit;
   OUnit; OLen 3; OItems [5; 6; 7]%Z None; OUnit] /\
  snd (spec_run (abs empty_world) hist_sizes) = snd (run fixed_cfg empty_world hist_sizes).
Proof. exact hist_sizes_outputs. Qed.

(* iterators ([IterNew k] = iter(store), [IterNext k] = next(it)) are operations of the histories of
   C07_store_refines_list; in the specification every iterator walks the list with its own cursor: *)
Theorem C07_spec_iterator_walks_the_list :
  forall s h k cur, s_h s = Some h -> @alookup nat nat Nat.eqb k (sh_iters h) = Some cur ->
    snd (spec_step s (IterNext k)) = match nth_error (s_items s h) cur with Some (t, _) => OItem t | None => OStop end /\
    cursor (fst (spec_step s (IterNext k))) k
    = Some (match nth_error (s_items s h) cur with Some _ => S cur | None => cur end).
Proof. exact spec_iter_next. Qed.
Print Assumptions C07_spec_iterator_walks_the_list.

(* and advancing or restarting one iterator moves no other cursor and does not change the list: two iterators
   advanced alternately, nested loops, a restart while another is half-way all see the whole list *)
Theorem C07_iterators_are_independent :
  forall s h k k', s_h s = Some h -> k <> k' ->
    (cursor (fst (spec_step s (IterNext k))) k' = cursor s k' /\
     cursor (fst (spec_step s (IterNew k))) k' = cursor s k') /\
    (forall h1, s_h (fst (spec_step s (IterNext k))) = Some h1 ->
                s_items (fst (spec_step s (IterNext k))) h1 = s_items s h).
Proof. exact iterators_independent. Qed.
Print Assumptions C07_iterators_are_independent.

Example C07_iterators_nonvacuous :
  hist_ok (abs empty_world) hist_iters /\
  snd (run fixed_cfg empty_world hist_iters) =
  [OUnit; OIdx 0; OIdx 1; OIdx 2;
   OUnit; OUnit; OItem 0; OItem 0; OItem 1; OItem 1; OItem 2; OItem 2; OStop; OStop;
   OUnit; OItem 0; OUnit; OItem 0; OItem 1; OItem 2; OStop; OItem 1;
   OUnit; OItem 0; OUnit; OItem 0; OIdx 3; OUnit; OItem 2; OItem 3; OStop; OUnit] /\
  snd (spec_run (abs empty_world) hist_iters) = snd (run fixed_cfg empty_world hist_iters).
Proof. exact hist_iters_outputs. Qed.

(* "regardless of how small the in-memory cache is", for reads (FC07a) and for additions to a file-backed store (FC07b):
   items carry their size on the read path ([isize]) and handles their cache capacity; in the specification neither
   reads nor file-backed additions depend on the capacity at all, so C07_store_refines_list is the theorem.  As found: *)
Theorem C07_oversized_read_before_fix_refuted :
  snd (run cfg_C07a empty_world hist_C07a)
  = [OUnit; OIdx 0; OIdx 1; OIdx 2; OUnit; OUnit; OItem 5; OErr ETooLarge; OItem 7; OItems [5]%Z (Some ETooLarge); OUnit] /\
  snd (run fixed_cfg empty_world hist_C07a)
  = [OUnit; OIdx 0; OIdx 1; OIdx 2; OUnit; OUnit; OItem 5; OItem 6; OItem 7; OItems [5; 6; 7]%Z None; OUnit] /\
  snd (spec_run (abs empty_world) hist_C07a) = snd (run fixed_cfg empty_world hist_C07a).
Proof. exact oversized_read_refuted. Qed.
Print Assumptions C07_oversized_read_before_fix_refuted.

Theorem C07_oversized_add_before_fix_refuted :
  snd (run cfg_C07b empty_world hist_C07b)
  = [OUnit; OIdx 0; OErr ETooLarge; OIdx 1; OLen 2; OItem 7; OUnit; OUnit; OItems [5; 7]%Z None; OUnit] /\
  snd (run fixed_cfg empty_world hist_C07b)
  = [OUnit; OIdx 0; OIdx 1; OIdx 2; OLen 3; OItem 6; OUnit; OUnit; OItems [5; 6; 7]%Z None; OUnit] /\
  snd (spec_run (abs empty_world) hist_C07b) = snd (run fixed_cfg empty_world hist_C07b).
Proof. exact oversized_add_refuted. Qed.
Print Assumptions C07_oversized_add_before_fix_refuted.

(* locating an index through the cumulative size table = indexing the concatenation (every seam) *)
Theorem C07_size_table_lookup_is_concat_index :
  forall parts i, nc_load parts (Some (cum (map (@length item) parts))) i = nth_error (concat parts) i.
Proof. exact locate_concat. Qed.
Print Assumptions C07_size_table_lookup_is_concat_index.

(* F5 — the code as found: create 4, reopen for append, add 2, evict, read index 0 -> item 2;
   read index 4 -> IndexError; the repaired machine agrees with the list *)
Theorem C07_append_session_read_before_fix_refuted :
  snd (run cfg_F5 empty_world hist_F5) <> snd (spec_run (abs empty_world) hist_F5) /\
  nth 10 (snd (run cfg_F5 empty_world hist_F5)) OUnit = OItem 2 /\
  nth 11 (snd (run cfg_F5 empty_world hist_F5)) OUnit = OErr EIndex /\
  snd (run fixed_cfg empty_world hist_F5) = snd (spec_run (abs empty_world) hist_F5).
Proof. exact append_session_read_refuted. Qed.
Print Assumptions C07_append_session_read_before_fix_refuted.

(* non-vacuity: a 31-operation history over a file store (three sessions, evictions, a rejected
   addition, lookups) and an in-memory store meets the hypothesis, with these list-specification answers *)
Example C07_nonvacuous :
  hist_ok (abs empty_world) hist_demo /\
  snd (spec_run (abs empty_world) hist_demo) =
  [OUnit; OIdx 0; OIdx 1; OItem 1; OErr EReject; OIdx 2; OUnit; OItem 0; OItems [0; 1; 2]%Z None; OUnit;
   OUnit; OIdx 3; OUnit; OItem 1; OItem 0; OErr EReject; OLen 4; OUnit; OUnit; OErr EIndex; OItem 3; ONone;
   OItems [0; 1; 2; 3]%Z None; OUnit;
   OUnit; OIdx 0; OIdx 1; OErr EFull; OItem 8; OLen 2; OUnit].
Proof. exact (conj hist_demo_ok hist_demo_outputs). Qed.

(* C18 — property theorems only.  Each is closed by [exact] of a lemma from proofs/C18_Proofs.v. *)
From Coq Require Import ZArith List String Bool.
From AV Require Import lib.Tree model.C18_Model proofs.C18_Proofs.
Import ListNotations.

(* For every history of loads (valid, or failing in any of the three ways), resets, reads and attempted
   mutations, from every state, the repaired implementation machine behaves exactly as the three-state
   reference machine of the property. *)
Theorem C18_impl_refines_reference_machine :
  forall d ops s, run d true s ops = spec_run d s ops.
Proof. exact run_refines_spec. Qed.
Print Assumptions C18_impl_refines_reference_machine.

Theorem C18_at_most_one_active :
  forall d late s f k fk s', step d late s (Load f k fk) = (s', OkUnit) ->
    s = None /\ fk = FkNone /\ s' = Some (effective d f k).
Proof. exact successful_load_only_when_unset. Qed.
Print Assumptions C18_at_most_one_active.

Theorem C18_load_while_active_refused :
  forall d late c f k fk, exists e, step d late (Some c) (Load f k fk) = (Some c, e) /\ e <> OkUnit.
Proof. exact load_while_active_refused. Qed.
Print Assumptions C18_load_while_active_refused.

Theorem C18_mutation_refused_every_level :
  forall d late c p, step d late (Some c) (Mutate p) = (Some c, ErrFrozen).
Proof. exact mutation_refused. Qed.
Print Assumptions C18_mutation_refused_every_level.

Theorem C18_config_changes_only_by_reset_or_load :
  forall d late ops s, forallb quiet ops = true -> fst (run d late s ops) = s.
Proof. exact config_immutable_between_loads. Qed.
Print Assumptions C18_config_changes_only_by_reset_or_load.

Theorem C18_read_before_load_refused :
  forall d late p, step d late None (Read p) = (None, ErrNotSet) /\ step d late None Get = (None, ErrNotSet)
                /\ step d late None (Mutate p) = (None, ErrNotSet).
Proof. exact read_before_load_refused. Qed.
Print Assumptions C18_read_before_load_refused.

Theorem C18_reset_allows_reload :
  forall d late s f k, let (s1, _) := step d late s Reset in
    step d late s1 (Load f k FkNone) = (Some (effective d f k), OkUnit).
Proof. exact reset_allows_reload. Qed.
Print Assumptions C18_reset_allows_reload.

Theorem C18_failed_load_leaves_unset :
  forall d f k fk, fk <> FkNone -> fst (step d true None (Load f k fk)) = None.
Proof. exact failed_load_leaves_unset. Qed.
Print Assumptions C18_failed_load_leaves_unset.

Theorem C18_failed_then_valid_load_succeeds :
  forall d f k fk f' k', fk <> FkNone ->
    step d true (fst (step d true None (Load f k fk))) (Load f' k' FkNone) = (Some (effective d f' k'), OkUnit).
Proof. exact failed_then_valid_load_succeeds. Qed.
Print Assumptions C18_failed_then_valid_load_succeeds.

(* overlay precedence: keyword arguments over file over packaged defaults, at every nesting depth *)
Theorem C18_overlay_kwargs_win :
  forall d f k p v, wf f = true -> wf k = true -> get p k = Some (Leaf v) ->
    get p (effective d f k) = Some (Leaf v).
Proof. exact kwargs_leaf_wins. Qed.
Print Assumptions C18_overlay_kwargs_win.

Theorem C18_overlay_file_wins_when_kwargs_silent :
  forall d f k p v, wf f = true -> wf k = true -> silent p f k -> get p f = Some (Leaf v) ->
    get p (effective d f k) = Some (Leaf v).
Proof. exact file_leaf_wins_when_kwargs_silent. Qed.
Print Assumptions C18_overlay_file_wins_when_kwargs_silent.

Theorem C18_overlay_defaults_kept_when_silent :
  forall d f k p, wf f = true -> wf k = true -> silent p d (du f k) ->
    get p (effective d f k) = get p d.
Proof. exact defaults_kept_when_overlays_silent. Qed.
Print Assumptions C18_overlay_defaults_kept_when_silent.

(* ---- generalised machine: the after-validators and the frozen flags are DATA regenerated from the source.
   NOTE (audit): the ten state-machine theorems above are one-step readings of [step]; [spec_step] is the same
   machine written flat, so C18_impl_refines_reference_machine carries little information of its own.  The
   statements with content are the overlay theorems, the three below (which hold for EVERY validator list /
   frozen predicate, with the as-found list refuted), and the per-run link + correspondence.  The failure kind of a
   load is an input label predicted by the harness oracle, not derived from the data. ---- *)

(* for every list of after-validators in which no raising stage follows a registration, a load that answers an
   error leaves the system unconfigured *)
Theorem C18_failed_load_leaves_unset_for_every_validator_list :
  forall d vs frozen f k fk,
    nothing_fails_after_register vs false = true ->
    snd (step_g d vs frozen None (LoadG f k fk)) <> OkUnit ->
    fst (step_g d vs frozen None (LoadG f k fk)) = None.
Proof. exact failed_load_leaves_unset_general. Qed.
Print Assumptions C18_failed_load_leaves_unset_for_every_validator_list.

(* the repaired validator list meets that condition, the list as found (register, then resolve paths) does not;
   with either list and all owners frozen the general machine is the machine of the theorems above *)
Theorem C18_stage_lists :
  nothing_fails_after_register repaired_stages false = true /\
  nothing_fails_after_register found_stages false = false /\
  (forall d (late : bool) ops s,
     run_g d (if late then repaired_stages else found_stages) (fun _ => true) s ops = run d late s (map forget ops)).
Proof.
  split; [exact repaired_stages_ok|]. split; [exact found_stages_not_ok|].
  intros d late ops s. exact (run_g_is_run d late _ eq_refl ops s).
Qed.
Print Assumptions C18_stage_lists.

(* values cannot be changed at any nesting level PROVIDED every owning model is frozen; with one unfrozen section
   a mutation goes through and the next read sees it *)
Theorem C18_all_frozen_means_immutable :
  forall d vs frozen, (forall p, frozen p = true) ->
    forall ops s, forallb quiet_g ops = true -> fst (run_g d vs frozen s ops) = s.
Proof. exact all_frozen_config_immutable. Qed.
Print Assumptions C18_all_frozen_means_immutable.

Theorem C18_unfrozen_section_is_mutable_refuted :
  exists (d : tree) (frozen : list string -> bool) (c : tree) (p : list string) (v : Z),
    frozen (owner p) = false /\
    fst (step_g d repaired_stages frozen (Some c) (MutateG p v)) <> Some c /\
    get p (match fst (step_g d repaired_stages frozen (Some c) (MutateG p v)) with Some t => t | None => c end)
      = Some (Leaf v).
Proof. exact unfrozen_section_is_mutable. Qed.
Print Assumptions C18_unfrozen_section_is_mutable_refuted.

(* the finding (F16), kept as documentation: registering the singleton before the last validator *)
Theorem C18_path_failure_leaves_set_before_fix_refuted :
  exists d f k, fst (step d false None (Load f k FkPath)) <> None
             /\ snd (step d false (fst (step d false None (Load f k FkPath))) (Load f k FkNone)) = ErrAlready.
Proof. exact path_failure_leaves_set_before_fix. Qed.
Print Assumptions C18_path_failure_leaves_set_before_fix_refuted.

(* non-vacuity: a concrete nested overlay meeting the hypotheses *)
Open Scope string_scope.
Example C18_nonvacuous :
  let d := Node [("a", Leaf 1); ("e", Node [("x", Leaf 1); ("y", Leaf 2)])] in
  let f := Node [("e", Node [("x", Leaf 7)])] in
  let k := Node [("e", Node [("y", Leaf 9)])] in
  wf f = true /\ wf k = true /\ silent ["e"; "x"] f k /\ silent ["a"] d (du f k)
  /\ get ["e"; "x"] (effective d f k) = Some (Leaf 7)
  /\ get ["e"; "y"] (effective d f k) = Some (Leaf 9)
  /\ get ["a"] (effective d f k) = Some (Leaf 1).
Proof. cbn. repeat split; auto. Qed.

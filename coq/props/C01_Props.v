(* C01 — property theorems only.  Each is closed by [exact] of a lemma from proofs/C01_Proofs.v.
   All statements are over the real instance RNum of the inventory model (model/C01_Model.v), for every
   input: any trajectory length and fuel-mass profile, any window (any integer phase counts), any fuel, LTO row,
   APU, aircraft class, any of the 41 472 configurations, any emission-index arrays of the EI methods.

   HOW MUCH EACH THEOREM SAYS.
   * Definitional read-backs — they restate how the MODEL is written and carry weight only through the
     model-vs-implementation correspondence and the independent oracle run on every check:
     C01_total_eq_parts, C01_total_fuel_eq_components (case splits over definitions that are exactly that sum),
     C01_lto_amount_eq_index_times_fuel ([reflexivity]), C01_apu_amount_eq_index_times_fuel (one rewrite).
   * Theorems with content beyond the definitions (induction over lists, telescoping, window / slice algebra, speciation
     arithmetic, case analysis of the key sets): C01_segment_*, C01_nothing_outside_window, C01_fuel_counted_once_*,
     C01_lto_mode_empty_window, C01_slice_bounds_stay_inside, the "exactly those components" group
     (C01_apu_absent_contributes_nothing … C01_lto_all_modes_counted_in_lto_mode), C01_nox_speciation_sums_*,
     C01_sox_split_sums, C01_*_pm_split, C01_amounts_nonneg_partial.
   STATED GAP: "finite" (no overflow, no NaN — a binary64 notion) is NOT a theorem here; it is checked on the
   implementation's outputs by the oracle on every run (known finding FC01a lives there).  The emission-index METHODS
   are inputs of the model (property C12). *)
From Coq Require Import List Bool ZArith Reals Lra Lia.
From AV Require Import lib.Num model.C11_Model model.C01_Model proofs.C01_Lists proofs.C01_Proofs.
Import ListNotations.
Local Open Scope R_scope.

(* each species' total = trajectory + LTO + APU + GSE amounts (+ the life-cycle adjustment for CO2);
   an absent key contributes 0 (gl / gtm / gr) *)
Theorem C01_total_eq_parts : forall (x : inputsR) (s : species),
  I_total x s =
    Rsum (gl (I_traj_em x s)) + Rtm_sum (gtm (I_lto_em x s)) + gr (I_apu_em x s) + gr (I_gse_em x s)
    + match s with CO2 => I_lifecycle x | _ => 0 end.
Proof. exact total_eq_parts. Qed.
Print Assumptions C01_total_eq_parts.

(* every per-segment amount = its (windowed) index * the fuel burned in that segment, which is the drop
   in fuel mass between consecutive points *)
Theorem C01_segment_eq_index_times_fuel : forall (x : inputsR) (s : species), oracle_lengths x ->
  forall i, nth i (gl (I_traj_em x s)) 0 = nth i (gl (I_traj_idx x s)) 0 * nth i (Rfuel_burn (i_fm x)) 0.
Proof. exact segment_eq_index_times_fuel_raw. Qed.
Print Assumptions C01_segment_eq_index_times_fuel.

Theorem C01_segment_fuel_is_mass_drop : forall fm i, (i < length fm)%nat ->
  nth i (Rfuel_burn fm) 0 = match i with O => 0 | S j => nth j fm 0 - nth i fm 0 end.
Proof. exact nth_fuel_burn. Qed.
Print Assumptions C01_segment_fuel_is_mass_drop.

Theorem C01_nothing_outside_window : forall (x : inputsR) s i,
  in_window (win_start (i_cfg x) (length (i_fm x)) (i_ncl x)) (win_stop (i_cfg x) (length (i_fm x)) (i_nde x)) i = false ->
  nth i (gl (I_traj_em x s)) 0 = 0 /\ nth i (gl (I_traj_idx x s)) 0 = 0.
Proof. exact traj_zero_outside_window. Qed.
Print Assumptions C01_nothing_outside_window.

Theorem C01_lto_amount_eq_index_times_fuel : forall (x : inputsR) s,
  I_lto_em x s = option_map (fun v => tm_mul v (lto_fuel (i_cfg x) (i_lto x))) (I_lto_idx x s).
Proof. exact lto_amount_eq_index_times_fuel. Qed.
Print Assumptions C01_lto_amount_eq_index_times_fuel.

Theorem C01_apu_amount_eq_index_times_fuel : forall (x : inputsR) s a, I_apu x = Some a ->
  I_apu_em x s = option_map (fun v => v * apu_fuel a) (I_apu_idx x s).
Proof. exact apu_amount_eq_index_times_fuel. Qed.
Print Assumptions C01_apu_amount_eq_index_times_fuel.

(* reported total fuel = fuel of exactly the components whose amounts enter the totals *)
Theorem C01_total_fuel_eq_components : forall x : inputsR,
  I_total_fuel x = I_traj_fuel x + I_lto_fuel x + I_apu_fuel x + I_gse_fuel x.
Proof. exact total_fuel_eq_components. Qed.
Print Assumptions C01_total_fuel_eq_components.

(* "exactly those components": a component that is off / absent contributes no amount, no index and no fuel; one that
   contributes fuel contributes amounts; under trajectory accounting the LTO side contributes nothing for climb-out and
   approach (fuel, indices, amounts), under lto accounting all four modes count *)
Theorem C01_apu_absent_contributes_nothing : forall x : inputsR, apu_on (i_cfg x) = false \/ i_apu x = None ->
  (forall s, I_apu_em x s = None /\ I_apu_idx x s = None) /\ I_apu_fuel x = 0.
Proof. exact apu_absent_contributes_nothing. Qed.
Print Assumptions C01_apu_absent_contributes_nothing.

Theorem C01_apu_present_contributes_every_written_species : forall (x : inputsR) a, I_apu x = Some a ->
  (forall s, apu_has (i_cfg x) s = true -> exists v, I_apu_em x s = Some v) /\ I_apu_fuel x = a_fuel a * 900.
Proof. exact apu_present_contributes_every_written_species. Qed.
Print Assumptions C01_apu_present_contributes_every_written_species.

Theorem C01_apu_fuel_counted_only_with_amounts : forall x : inputsR, I_apu_fuel x <> 0 ->
  exists v, I_apu_em x CO2 = Some v.
Proof. exact apu_fuel_counted_only_with_amounts. Qed.
Print Assumptions C01_apu_fuel_counted_only_with_amounts.

Theorem C01_gse_off_contributes_nothing : forall x : inputsR, gse_on (i_cfg x) = false ->
  (forall s, I_gse_em x s = None) /\ I_gse_fuel x = 0.
Proof. exact gse_off_contributes_nothing. Qed.
Print Assumptions C01_gse_off_contributes_nothing.

Theorem C01_gse_fuel_counted_only_with_amounts : forall x : inputsR, I_gse_fuel x <> 0 ->
  forall s, exists v, I_gse_em x s = Some v.
Proof. exact gse_fuel_counted_only_with_amounts. Qed.
Print Assumptions C01_gse_fuel_counted_only_with_amounts.

Theorem C01_lto_climb_approach_excluded_in_trajectory_mode : forall x : inputsR, cd (i_cfg x) = CD_TRAJECTORY ->
  tm_approach (lto_fuel (i_cfg x) (i_lto x)) = 0 /\ tm_climb (lto_fuel (i_cfg x) (i_lto x)) = 0
  /\ forall s, tm_approach (gtm (I_lto_em x s)) = 0 /\ tm_climb (gtm (I_lto_em x s)) = 0
               /\ tm_approach (gtm (I_lto_idx x s)) = 0 /\ tm_climb (gtm (I_lto_idx x s)) = 0.
Proof. exact lto_climb_approach_excluded_in_trajectory_mode. Qed.
Print Assumptions C01_lto_climb_approach_excluded_in_trajectory_mode.

Theorem C01_lto_all_modes_counted_in_lto_mode : forall x : inputsR, cd (i_cfg x) = CD_LTO ->
  lto_fuel (i_cfg x) (i_lto x) = tm_mul lto_tims (l_ff (i_lto x)).
Proof. exact lto_all_modes_counted_in_lto_mode. Qed.
Print Assumptions C01_lto_all_modes_counted_in_lto_mode.

(* every kilogram counted once: trajectory + LTO CO2 (H2O) = EI * (trajectory fuel + LTO fuel) *)
Theorem C01_fuel_counted_once_CO2 : forall x : inputsR, co2_on (i_cfg x) = true ->
  Rsum (gl (I_traj_em x CO2)) + Rtm_sum (gtm (I_lto_em x CO2)) = f_EI_CO2 (i_fuel x) * (I_traj_fuel x + I_lto_fuel x).
Proof. exact fuel_counted_once_CO2. Qed.
Print Assumptions C01_fuel_counted_once_CO2.

Theorem C01_fuel_counted_once_H2O : forall x : inputsR, h2o_on (i_cfg x) = true ->
  Rsum (gl (I_traj_em x H2O)) + Rtm_sum (gtm (I_lto_em x H2O)) = f_EI_H2O (i_fuel x) * (I_traj_fuel x + I_lto_fuel x).
Proof. exact fuel_counted_once_H2O. Qed.
Print Assumptions C01_fuel_counted_once_H2O.

(* trajectory accounting: the trajectory fuel telescopes to first-point minus last-point fuel mass (any
   length, any profile); LTO supplies taxi/idle (26 min) and take-off (0.7 min) only *)
Theorem C01_fuel_counted_once_trajectory_mode : forall x : inputsR,
  cd (i_cfg x) = CD_TRAJECTORY -> i_fm x <> [] ->
  I_traj_fuel x = hd 0 (i_fm x) - last (i_fm x) 0
  /\ I_lto_fuel x = 1560 * tm_idle (l_ff (i_lto x)) + 42 * tm_takeoff (l_ff (i_lto x)).
Proof. exact fuel_counted_once_trajectory_mode. Qed.
Print Assumptions C01_fuel_counted_once_trajectory_mode.

(* lto accounting, for ANY integer phase counts (Python slice semantics of [n_climb : n - n_descent], negative
   bounds and bounds beyond the end included): the trajectory contributes exactly the fuel-mass drop over the
   normalised window, the four LTO modes the rest — no segment is counted twice *)
Theorem C01_fuel_counted_once_lto_mode : forall x : inputsR, cd (i_cfg x) = CD_LTO ->
  let n := length (i_fm x) in
  let a := norm_bound n (i_ncl x) in let b := norm_bound n (Z.of_nat n - i_nde x) in
  (a <= b)%nat -> (1 <= b)%nat ->
  I_traj_fuel x = nth (Nat.pred (Nat.max a 1)) (i_fm x) 0 - nth (Nat.pred b) (i_fm x) 0
  /\ I_lto_fuel x = 1560 * tm_idle (l_ff (i_lto x)) + 240 * tm_approach (l_ff (i_lto x))
                    + 132 * tm_climb (l_ff (i_lto x)) + 42 * tm_takeoff (l_ff (i_lto x)).
Proof. exact fuel_counted_once_lto_mode. Qed.
Print Assumptions C01_fuel_counted_once_lto_mode.

(* the ordinary case produced by the trajectory builders: 0 <= n_climb, 0 <= n_descent, n_climb + n_descent <= n *)
Theorem C01_fuel_counted_once_lto_mode_ordinary : forall x : inputsR, cd (i_cfg x) = CD_LTO ->
  let n := length (i_fm x) in
  (0 <= i_ncl x)%Z -> (0 <= i_nde x)%Z -> (i_ncl x + i_nde x <= Z.of_nat n)%Z -> (i_nde x < Z.of_nat n)%Z ->
  I_traj_fuel x = nth (Nat.pred (Nat.max (Z.to_nat (i_ncl x)) 1)) (i_fm x) 0
                  - nth (Nat.pred (n - Z.to_nat (i_nde x))) (i_fm x) 0.
Proof. exact fuel_counted_once_lto_mode_ordinary. Qed.
Print Assumptions C01_fuel_counted_once_lto_mode_ordinary.

Theorem C01_lto_mode_empty_window : forall x : inputsR, cd (i_cfg x) = CD_LTO ->
  let n := length (i_fm x) in
  (norm_bound n (Z.of_nat n - i_nde x) <= norm_bound n (i_ncl x))%nat -> I_traj_fuel x = 0.
Proof. exact lto_mode_empty_window. Qed.
Print Assumptions C01_lto_mode_empty_window.

Theorem C01_slice_bounds_stay_inside : forall n k, (norm_bound n k <= n)%nat.
Proof. exact norm_bound_le. Qed.
Print Assumptions C01_slice_bounds_stay_inside.

(* NO + NO2 + HONO = NOx: LTO (indices and amounts, every thrust mode), APU, GSE unconditionally;
   trajectory: preserved by the bookkeeping whenever the EI method's arrays close per point *)
Theorem C01_nox_speciation_sums_lto : forall x : inputsR,
  tm_add3 (gtm (I_lto_idx x NO)) (gtm (I_lto_idx x NO2)) (gtm (I_lto_idx x HONO)) = gtm (I_lto_idx x NOx)
  /\ tm_add3 (gtm (I_lto_em x NO)) (gtm (I_lto_em x NO2)) (gtm (I_lto_em x HONO)) = gtm (I_lto_em x NOx).
Proof. intro x. split; [exact (nox_speciation_lto_idx x)|exact (nox_speciation_lto_em x)]. Qed.
Print Assumptions C01_nox_speciation_sums_lto.

Theorem C01_nox_speciation_sums_apu : forall x : inputsR,
  gr (I_apu_idx x NO) + gr (I_apu_idx x NO2) + gr (I_apu_idx x HONO) = gr (I_apu_idx x NOx)
  /\ gr (I_apu_em x NO) + gr (I_apu_em x NO2) + gr (I_apu_em x HONO) = gr (I_apu_em x NOx).
Proof. exact nox_speciation_apu. Qed.
Print Assumptions C01_nox_speciation_sums_apu.

Theorem C01_nox_speciation_sums_gse : forall x : inputsR,
  gr (I_gse_em x NO) + gr (I_gse_em x NO2) + gr (I_gse_em x HONO) = gr (I_gse_em x NOx).
Proof. exact nox_speciation_gse. Qed.
Print Assumptions C01_nox_speciation_sums_gse.

(* trajectory: UNCONDITIONAL.  NO / NO2 / HONO are built from the EI method's NOx array with the fractions of each
   point's thrust category (category = utils.get_thrust_cat_cruise of the SLS-equivalent fuel flow), as
   BFFM2_EINOx does; whatever the NOx array, the SLS fuel flows and the LTO fuel flows are, the parts close on NOx
   per point, for the windowed indices and for the amounts.  (nox_method = p3t3 / none: all four absent.) *)
Theorem C01_nox_speciation_sums_trajectory : forall x : inputsR, oracle_lengths x ->
  forall i,
    nth i (gl (I_traj_idx x NO)) 0 + nth i (gl (I_traj_idx x NO2)) 0 + nth i (gl (I_traj_idx x HONO)) 0
      = nth i (gl (I_traj_idx x NOx)) 0
    /\ nth i (gl (I_traj_em x NO)) 0 + nth i (gl (I_traj_em x NO2)) 0 + nth i (gl (I_traj_em x HONO)) 0
      = nth i (gl (I_traj_em x NOx)) 0.
Proof. exact nox_speciation_traj_unconditional. Qed.
Print Assumptions C01_nox_speciation_sums_trajectory.

(* PM splits of the ground components: APU PMvol + PMnvol = max(PM10 - SO4, 0) with 95 % non-volatile;
   GSE PMvol + PMnvol = PM10 core - SO4 *)
Theorem C01_apu_pm_split : forall (x : inputsR) a, I_apu x = Some a ->
  gr (I_apu_idx x PMvol) + gr (I_apu_idx x PMnvol) = apu_pm10 (i_cfg x) (i_fuel x) (i_lto x) (i_orc_lto x) a
  /\ gr (I_apu_idx x PMnvol) = (95 / 100) * apu_pm10 (i_cfg x) (i_fuel x) (i_lto x) (i_orc_lto x) a.
Proof. exact apu_pm_split. Qed.
Print Assumptions C01_apu_pm_split.

Theorem C01_gse_pm_split : forall x : inputsR, gse_on (i_cfg x) = true ->
  let '(_, _, _, _, pm) := @gse_nominal RNum (i_class x) in
  gr (I_gse_em x PMvol) + gr (I_gse_em x PMnvol) = pm - gr (I_gse_em x SO4).
Proof. exact gse_pm_split. Qed.
Print Assumptions C01_gse_pm_split.

(* SO2 + SO4 = SOx everywhere *)
Theorem C01_sox_split_sums : forall x : inputsR,
  (forall i, nth i (gl (I_traj_idx x SO2)) 0 + nth i (gl (I_traj_idx x SO4)) 0 = nth i (gl (I_traj_idx x SOx)) 0
             /\ nth i (gl (I_traj_em x SO2)) 0 + nth i (gl (I_traj_em x SO4)) 0 = nth i (gl (I_traj_em x SOx)) 0)
  /\ (tm_add2 (gtm (I_lto_idx x SO2)) (gtm (I_lto_idx x SO4)) = gtm (I_lto_idx x SOx)
      /\ tm_add2 (gtm (I_lto_em x SO2)) (gtm (I_lto_em x SO4)) = gtm (I_lto_em x SOx))
  /\ (gr (I_apu_idx x SO2) + gr (I_apu_idx x SO4) = gr (I_apu_idx x SOx)
      /\ gr (I_apu_em x SO2) + gr (I_apu_em x SO4) = gr (I_apu_em x SOx))
  /\ gr (I_gse_em x SO2) + gr (I_gse_em x SO4) = gr (I_gse_em x SOx).
Proof.
  intro x. split; [exact (sox_split_traj x)|]. split; [exact (sox_split_lto x)|].
  split; [exact (sox_split_apu x)|exact (sox_split_gse x)].
Qed.
Print Assumptions C01_sox_split_sums.

(* all amounts non-negative.  PARTIAL — full statement of the property clause: "all amounts are finite and
   non-negative".  Proved: non-negativity over the reals under the explicit hypotheses [nonneg_inputs]
   (fuel mass non-increasing, indices of the EI methods >= 0, data >= 0, EI_CO2 > 0, 0 <= sulfate yield <= 1,
   and the APU carbon balance [carbon_ok]).  Not a theorem: finiteness (a binary64 notion: no overflow, no
   NaN) — checked on the implementation's outputs by the oracle on every run. *)
Theorem C01_amounts_nonneg_partial : forall x : inputsR, nonneg_inputs x ->
  (forall i, 0 <= nth i (Rfuel_burn (i_fm x)) 0)
  /\ (forall s i, 0 <= nth i (gl (I_traj_em x s)) 0)
  /\ (forall s, tm_nonneg (gtm (I_lto_em x s)))
  /\ (forall s, 0 <= gr (I_apu_em x s))
  /\ (forall s, 0 <= gr (I_gse_em x s))
  /\ (forall s, 0 <= I_total x s)
  /\ 0 <= I_total_fuel x.
Proof. exact amounts_nonneg_partial. Qed.
Print Assumptions C01_amounts_nonneg_partial.

(* ---- non-vacuity: a 6-point trajectory with a zero-burn segment, both accounting modes ---- *)
Example C01_nonvacuous_hypotheses : forall m, nonneg_inputs (ex_inputs m) /\ oracle_lengths (ex_inputs m).
Proof. intro m. split; [exact (ex_nonneg m)|exact (ex_lengths m)]. Qed.

Example C01_nonvacuous_plateau_and_window :
  nth 3 (Rfuel_burn ex_fm) 0 = 0 /\ nth 4 (Rfuel_burn ex_fm) 0 = 27.5
  /\ I_traj_fuel (ex_inputs CD_LTO) = 1994 - 1987.5
  /\ co2_on (i_cfg (ex_inputs CD_LTO)) = true /\ cd (i_cfg (ex_inputs CD_TRAJECTORY)) = CD_TRAJECTORY.
Proof.
  destruct ex_has_plateau as [A B]. repeat split; try assumption. exact ex_lto_window_fuel.
Qed.

Example C01_nonvacuous_nox_oracle :
  lookup NOx (i_orc_traj (ex_inputs CD_LTO)) = Some [10; 10; 12; 12; 10; 8]
  /\ length (i_sls (ex_inputs CD_LTO)) = 6%nat /\ traj_var_has (i_cfg (ex_inputs CD_LTO)) NOx = true.
Proof. repeat split; reflexivity. Qed.

(* the trajectory NOx closure is not 0+0+0 = 0 here: under lto accounting, at point 2 (inside the window, thrust
   category APPROACH) NO is 12 x the approach NO fraction, non-zero, and the parts close on NOx at that point *)
Example C01_nonvacuous_nox_closure_at_a_point :
  nth 2 (gl (I_traj_idx (ex_inputs CD_LTO) NO)) 0 = 12 * tm_approach (@sp_no RNum)
  /\ nth 2 (gl (I_traj_idx (ex_inputs CD_LTO) NO)) 0 <> 0
  /\ nth 2 (gl (I_traj_idx (ex_inputs CD_LTO) NO)) 0 + nth 2 (gl (I_traj_idx (ex_inputs CD_LTO) NO2)) 0
      + nth 2 (gl (I_traj_idx (ex_inputs CD_LTO) HONO)) 0 = nth 2 (gl (I_traj_idx (ex_inputs CD_LTO) NOx)) 0.
Proof.
  split; [exact ex_NO_at_2|]. split; [exact ex_NO_at_2_nonzero|].
  exact (proj1 (nox_speciation_traj_unconditional (ex_inputs CD_LTO) (ex_lengths CD_LTO) 2%nat)).
Qed.

(* C09 — a merged store equals the concatenation of its input stores.  Property theorems only. *)
(* Scope of the model these theorems are about (shared by C07 C08 C09 C10):
   - ONE live TrajectoryStore handle at a time; a merge runs with no handle open;
   - the refinement theorem is about worlds whose file system holds store files only ([Inv]: no merged directory
     elsewhere); merged directories are covered by the merge / merged-read theorems (C09, C10);
   - a fault is an exception raised IN FRONT of a file-system call (the call has no effect); os.rename is atomic and
     stays on one device; a crash inside rename / json.dump is not modelled;
   - payloads are reduced to a tag, a flight id, the identity of the field sets and a size; the contents of the other
     fields are C03's subject. *)
From Coq Require Import ZArith List Bool.
From AV Require Import model.Store_Model proofs.Store_Proofs proofs.Store_IdWidth proofs.Store_Refine
                       proofs.Store_MergeProofs proofs.Store_MergedReads proofs.Store_Corollaries.
Import ListNotations.

(* merge (1..k inputs, any sizes), then open the directory: for EVERY sequence of reads ([] at any index
   — hence at every seam —, len, iteration, get_flight, with any evictions in between; add / sync are
   refused) the answers are those of ONE store holding the inputs' lists concatenated in the order given *)
Theorem C09_merged_is_concat :
  forall fs0 outp ins fs' cp,
    inputs_wf fs0 ins ->
    merge_run fixed_cfg fs0 outp ins None = (fs', OUnit) ->
    let parts := map (input_file fs0) ins in
    exists h d,
      step fixed_cfg (mkW fs' None) (OpenR outp cp) = (mkW fs' (Some h), OUnit) /\
      flookup outp fs' = Some (NDir d) /\
      ident d = all_indexed fs0 ins /\
      merged_parts fs' outp = Some parts /\ Forall file_ok parts /\ mh_ok outp d parts h /\
      forall sg ops, reads_ok parts ops ->
        map coarse (snd (run fixed_cfg (mkW fs' (Some h)) ops))
        = snd (spec_run (concat_world outp d parts sg cp []) ops).
Proof. exact merged_is_concat. Qed.
Print Assumptions C09_merged_is_concat.

(* the inputs of a merge are closed stores of a reachable world: [inputs_wf] holds of them *)
Theorem C09_reachable_inputs_are_wellformed :
  forall w ins, Inv w -> w_h w = None -> inputs_wf (w_fs w) ins.
Proof.
  intros w ins I Hh p f _ L. destruct (inv_files _ I _ _ L) as (f' & E & Ok & Fr).
  injection E as <-. split; auto. intros Hi. rewrite Hh in Fr. exact (fresh_none p f Fr Hi).
Qed.
Print Assumptions C09_reachable_inputs_are_wellformed.

(* the size-table lookup of (file, local index) is indexing into the concatenation, for every partition
   (empty parts included) and every index: in particular for separately merged associated stores, each of
   whose field sets is located through its own table *)
Theorem C09_locate_is_concat_index :
  forall parts i, nc_load parts (Some (cum (map (@length item) parts))) i = nth_error (concat parts) i.
Proof. exact locate_concat. Qed.
Print Assumptions C09_locate_is_concat_index.

(* data held in separately merged associated stores: a merged store opened together with associated merged
   stores answers [i] with the i-th payload of the base concatenation and, for EVERY associated store and EVERY
   way its records are split over its files (equal to the base's split or not), the i-th record of THAT store's
   own concatenation — each field set is located through its own store's cumulative size table *)
Theorem C09_associated_records_follow_their_own_concatenation :
  forall fs ps ls i, Forall2 (fun p l => merged_parts fs p = Some l) ps ls ->
    col_values fs ps i = sequence (map (fun l => option_map tag (nth_error (concat (map f_items l)) i)) ls).
Proof. exact col_values_concat. Qed.
Print Assumptions C09_associated_records_follow_their_own_concatenation.

Theorem C09_getitem_with_associated_stores :
  forall fs outp d parts, flookup outp fs = Some (NDir d) -> merged_parts fs outp = Some parts -> Forall file_ok parts ->
    forall h i ps, mh_ok outp d parts h -> exists c,
      step fixed_cfg (mkW fs (Some h)) (GetA i ps) =
      (mkW fs (Some (set_cache h c)),
       match nth_error (concat (map f_items parts)) i with
       | Some x => match col_values fs ps i with Some vs => OItemA (tag x) vs | None => OErr EIndex end
       | None => OErr EIndex
       end) /\ mh_ok outp d parts (set_cache h c).
Proof. intros fs outp d parts Ld Hp Hw h i ps. exact (geta_merged fs outp d parts Hp Hw h i ps). Qed.
Print Assumptions C09_getitem_with_associated_stores.

(* liveness: a merge whose arguments meet the preconditions (existing .nc inputs with distinct names, a free
   .aeic-store output, equal field sets, all-or-none identification) and that suffers no fault SUCCEEDS and leaves
   the complete directory — a merge that refused everything would not satisfy this *)
Theorem C09_merge_succeeds_when_preconditions_hold :
  forall fs0 outp ins, Pre fs0 outp ins ->
    snd (merge_run fixed_cfg fs0 outp ins None) = OUnit /\
    Complete fs0 outp ins (fst (merge_run fixed_cfg fs0 outp ins None)).
Proof. exact merge_succeeds. Qed.
Print Assumptions C09_merge_succeeds_when_preconditions_hold.

(* end to end: a base family and an associated family merged separately (any splits), the base directory opened: for
   every handle state and every i, [i] with the associated directory answers the i-th payload of the base concatenation
   together with the i-th record of the associated concatenation — the i-th associated record belongs to the i-th
   trajectory when both families hold the same flights in the same order *)
Theorem C09_merged_families_aligned :
  forall fs0 outb inb fs1 outa ina fs2 cp,
    inputs_wf fs0 inb ->
    merge_run fixed_cfg fs0 outb inb None = (fs1, OUnit) ->
    merge_run fixed_cfg fs1 outa ina None = (fs2, OUnit) ->
    outb <> outa -> ~ In outb ina ->
    let pb := map (input_file fs0) inb in
    let pa := map (input_file fs1) ina in
    exists h d,
      step fixed_cfg (mkW fs2 None) (OpenR outb cp) = (mkW fs2 (Some h), OUnit) /\ mh_ok outb d pb h /\
      forall h', mh_ok outb d pb h' -> forall i, exists c,
        step fixed_cfg (mkW fs2 (Some h')) (GetA i [outa]) =
        (mkW fs2 (Some (set_cache h' c)),
         match nth_error (concat (map f_items pb)) i, nth_error (concat (map f_items pa)) i with
         | Some x, Some y => OItemA (tag x) [tag y]
         | _, _ => OErr EIndex
         end) /\ mh_ok outb d pb (set_cache h' c).
Proof. exact merged_families_aligned. Qed.
Print Assumptions C09_merged_families_aligned.

Example C09_associated_nonvacuous :
  snd (run fixed_cfg empty_world hist_assoc) =
  [OUnit; OIdx 0; OIdx 1; OIdx 2; OUnit; OUnit; OIdx 0; OIdx 1; OUnit; OUnit; OUnit; OUnit; OUnit;
   OUnit; OItemA 10 [110%Z]; OItemA 11 [111%Z]; OItemA 12 [112%Z]; OItemA 13 [113%Z]; OItemA 14 [114%Z]; OErr EIndex;
   OLen 5; OUnit].
Proof. exact assoc_demo. Qed.

(* what a completed merge leaves: the inputs moved (in order) into the directory, the merged index iff
   all inputs are identified, metadata listing (name, length) in order; nothing else touched *)
Theorem C09_merge_result :
  forall fs0 outp ins fs', merge_run fixed_cfg fs0 outp ins None = (fs', OUnit) ->
    Pre fs0 outp ins /\ Complete fs0 outp ins fs'.
Proof. exact merge_success. Qed.
Print Assumptions C09_merge_result.

(* inputs whose field sets differ, or that mix identified and unidentified stores, are refused — and
   nothing is changed *)
Theorem C09_merge_refuses_mismatch :
  forall fs0 outp ins fs' r,
    merge_run fixed_cfg fs0 outp ins None = (fs', r) ->
    ((exists p q f g, In p ins /\ In q ins /\ flookup p fs0 = Some (NFile f) /\ flookup q fs0 = Some (NFile g)
                      /\ f_sig f <> f_sig g) \/
     (exists p q f g, In p ins /\ In q ins /\ flookup p fs0 = Some (NFile f) /\ flookup q fs0 = Some (NFile g)
                      /\ f_hasidx f = true /\ f_hasidx g = false)) ->
    fs' = fs0 /\ exists e, r = OErr e.
Proof. exact merge_refuses_mismatch. Qed.
Print Assumptions C09_merge_refuses_mismatch.

(* FC09a — as found: two inputs with the same file name in different directories: the second rename
   replaces the first; the merged store reports length 6 and yields [2;3;4;2;3;4]; items 0 and 1 are gone *)
Theorem C09_merge_same_name_before_fix_refuted :
  snd (merge_run cfg_C09a fs_dup OUT [P0; Q0] None) = OUnit /\
  snd (run cfg_C09a (mkW (fst (merge_run cfg_C09a fs_dup OUT [P0; Q0] None)) None) [OpenR OUT None; Len; Iter []])
  = [OUnit; OLen 6; OItems [2; 3; 4; 2; 3; 4]%Z None] /\
  merge_run fixed_cfg fs_dup OUT [P0; Q0] None = (fs_dup, OErr EDupNames).
Proof. exact merge_same_name_loses_data_refuted. Qed.
Print Assumptions C09_merge_same_name_before_fix_refuted.

Example C09_nonvacuous :
  snd (merge_run fixed_cfg fs_three OUT [P0; P1] None) = OUnit /\
  snd (run fixed_cfg (mkW (fst (merge_run fixed_cfg fs_three OUT [P0; P1] None)) None)
           [OpenR OUT None; Len; Get 0; Get 1; Get 2; Get 3; GetFlight 50; GetFlight 30; GetFlight 7; Iter []])
  = [OUnit; OLen 3; OItem 0; OItem 1; OItem 2; OErr EIndex; OItem 2; OItem 0; ONone; OItems [0; 1; 2]%Z None].
Proof. exact merge_demo. Qed.

(* Identifier width in the merged index (see the note in C08_Props.v): the merged table — the inputs' tables shifted
   by the lengths before them and concatenated — is unchanged by 64-bit buffers for every identifier of the int64
   range, and so is every lookup in its sorted form ... *)
Theorem C09_merged_index_exact_on_whole_int64_range : forall off parts,
  (forall f, In f parts -> keys_in_int64 (f_table f)) ->
  narrow_pairs 64 (merged_pairs off parts) = merged_pairs off parts /\
  (forall x, table_lookup x (isort (narrow_pairs 64 (merged_pairs off parts))) =
             table_lookup x (isort (merged_pairs off parts))).
Proof. exact merged_index_exact_on_int64. Qed.
Print Assumptions C09_merged_index_exact_on_whole_int64_range.

(* ... while 32-bit buffers lose an identifier of the second input that the unmerged input still finds (seeded/C09-11) *)
Theorem C09_32bit_merged_index_refuted :
  exists (t1 t2 : list (Z * nat)), keys_in_int64 (t1 ++ t2) /\
    table_lookup 2147483655 (isort (t1 ++ t2)) = Some 3%nat /\
    table_lookup 2147483655 (isort (narrow_pairs 32 (t1 ++ t2))) = None.
Proof. exact narrow32_breaks_merged. Qed.
Print Assumptions C09_32bit_merged_index_refuted.

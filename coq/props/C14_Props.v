(* C14 — property theorems only.  Each is closed by [exact] of a lemma from proofs/C14_Proofs.v.
   [coin] (SQLite's random()) and [db] (any list of joined rows) are universally quantified.
   reset_on_build / empty_ok = true is the specification; false is the code as found. *)
From Coq Require Import ZArith List String Bool Sorted Permutation.
From AV Require Import lib.Dates model.C14_Model proofs.C14_Proofs proofs.C14_DateZone.
Import ListNotations.
Open Scope Z_scope.

(* sound + complete: without a limit the answer holds exactly the rows of the database that satisfy every
   accumulated conjunct ... *)
Theorem C14_query_returns_exactly_matches :
  forall coin db q cs r, q_limit q = None ->
    (In r (exec_query coin db q cs) <-> In r db /\ eval_conds coin db 0 cs r = true).
Proof. exact exec_nolimit_In. Qed.
Print Assumptions C14_query_returns_exactly_matches.

(* ... each exactly as often as it is stored (a permutation of the selected rows) ... *)
Theorem C14_query_result_is_permutation_of_matches :
  forall coin db q cs, q_limit q = None -> Permutation (exec_query coin db q cs) (selected coin db cs).
Proof. exact exec_nolimit_perm. Qed.
Print Assumptions C14_query_result_is_permutation_of_matches.

(* ... in departure-time order (with or without a limit) *)
Theorem C14_query_result_sorted :
  forall coin db q cs, StronglySorted dep_le (exec_query coin db q cs).
Proof. exact exec_sorted. Qed.
Print Assumptions C14_query_result_sorted.

(* and the conjuncts of one build of an unsampled query mean ([matches_spec], stated with [filter_spec], not with
   the executable filter): the filter's 18 clauses, start and end dates inclusive
   (UTC calendar day of the departure), every n-th day counted from the start date or from the first day
   in the database *)
Theorem C14_conditions_mean_the_query :
  forall coin db eo q cs r, own_conds eo q = Ok cs -> q_sample q = None ->
    (eval_conds coin db 0 cs r = true <-> matches_spec db q r).
Proof. exact own_conds_meaning. Qed.
Print Assumptions C14_conditions_mean_the_query.

(* "matches the filter", specified independently of the executable filter: the 18 clauses of the property text
   (inclusive ranges; IN-lists, an empty service/aircraft list being no condition; airport / country / continent /
   bounding box on either end when the combined attribute is given, else on origin and on destination) ... *)
Theorem C14_filter_spec_is_the_18_clauses :
  forall f r, filter_spec f r <->
  ((forall m, f_mindist f = Some m -> m <= r_dist r) /\ (forall m, f_maxdist f = Some m -> r_dist r <= m)
  /\ (forall m, f_minseat f = Some m -> m <= r_seats r) /\ (forall m, f_maxseat f = Some m -> r_seats r <= m)
  /\ (forall l, f_service f = Some l -> l <> [] -> In (r_service r) l)
  /\ (forall l, f_actype f = Some l -> l <> [] -> In (r_actype r) l)
  /\ (forall l, f_ap f = Some l -> In (r_oap r) l \/ In (r_dap r) l)
  /\ (forall l, f_ap f = None -> f_oap f = Some l -> In (r_oap r) l)
  /\ (forall l, f_ap f = None -> f_dap f = Some l -> In (r_dap r) l)
  /\ (forall l, f_ctry f = Some l -> In (r_octry r) l \/ In (r_dctry r) l)
  /\ (forall l, f_ctry f = None -> f_octry f = Some l -> In (r_octry r) l)
  /\ (forall l, f_ctry f = None -> f_dctry f = Some l -> In (r_dctry r) l)
  /\ (forall l, f_cont f = Some l -> In (r_ocont r) l \/ In (r_dcont r) l)
  /\ (forall l, f_cont f = None -> f_ocont f = Some l -> In (r_ocont r) l)
  /\ (forall l, f_cont f = None -> f_dcont f = Some l -> In (r_dcont r) l)
  /\ (forall b, f_bb f = Some b -> box_holds b (r_olat r) (r_olon r) \/ box_holds b (r_dlat r) (r_dlon r))
  /\ (forall b, f_bb f = None -> f_obb f = Some b -> box_holds b (r_olat r) (r_olon r))
  /\ (forall b, f_bb f = None -> f_dbb f = Some b -> box_holds b (r_dlat r) (r_dlon r))).
Proof. exact filter_spec_unfold. Qed.
Print Assumptions C14_filter_spec_is_the_18_clauses.

(* ... and the executable filter of the model decides exactly that (both directions) *)
Theorem C14_filter_matches_iff_spec :
  forall f r, filter_matches f r = true <-> filter_spec f r.
Proof. exact filter_matches_iff_spec. Qed.
Print Assumptions C14_filter_matches_iff_spec.

(* with a limit: only matching rows, and never more than the limit *)
Theorem C14_limited_query_sound :
  forall coin db q cs r, In r (exec_query coin db q cs) -> In r db /\ eval_conds coin db 0 cs r = true.
Proof. exact exec_sound. Qed.
Print Assumptions C14_limited_query_sound.

(* limit and offset cut a contiguous window out of the ordered answer *)
Theorem C14_limit_offset_window :
  forall n o (l : list row), 0 <= n -> 0 <= o ->
    exists pre post, l = pre ++ window (Some n) (Some o) l ++ post
      /\ List.length pre = Nat.min (Z.to_nat o) (List.length l)
      /\ List.length (window (Some n) (Some o) l) = Nat.min (Z.to_nat n) (List.length l - Z.to_nat o)%nat.
Proof. exact window_spec. Qed.
Print Assumptions C14_limit_offset_window.

Theorem C14_exec_is_window_of_sorted_matches :
  forall coin db q cs,
    exec_query coin db q cs =
    match q_limit q with
    | None => sort_by_dep (selected coin db cs)
    | Some n => firstn (Z.to_nat n) (skipn (Z.to_nat (match q_offset q with Some o => o | None => 0 end))
                                            (sort_by_dep (selected coin db cs)))
    end.
Proof. exact exec_window. Qed.
Print Assumptions C14_exec_is_window_of_sorted_matches.

(* a count query returns the number of instances the unlimited query returns *)
Theorem C14_count_eq_length :
  forall coin db q cs, q_limit q = None ->
    exec_count coin db cs = Z.of_nat (List.length (exec_query coin db q cs)).
Proof. exact count_eq_length. Qed.
Print Assumptions C14_count_eq_length.

(* frequent routes: true counts, descending, one entry per route, the omitted ones are no more frequent *)
Theorem C14_frequent_counts_true_and_sorted :
  forall coin db limit cs,
    let rows := selected coin db cs in
    let res := exec_frequent coin db limit cs in
    (forall k c, In (k, c) res -> c = occurrences k rows /\ 1 <= c)
    /\ StronglySorted count_ge res
    /\ NoDup (map fst res)
    /\ (List.length res <= Z.to_nat limit)%nat
    /\ (exists rest, sort_desc (tally rows) = res ++ rest
                     /\ forall x y, In x res -> In y rest -> snd y <= snd x)
    /\ (forall r, In r rows -> In (r_od r, occurrences (r_od r) rows) (sort_desc (tally rows))).
Proof. exact frequent_spec. Qed.
Print Assumptions C14_frequent_counts_true_and_sorted.

Theorem C14_route_key_direction_independent : forall a b, od_key a b = od_key b a.
Proof. exact od_key_sym. Qed.
Print Assumptions C14_route_key_direction_independent.

(* connected to the stored key: on well-formed rows (r_od = od_key origin destination — what the importer
   writes, and what the harness checks on every database) an instance A->B and an instance B->A share one key,
   are counted in one entry of the ranking, and that entry counts both *)
Theorem C14_both_directions_tallied_together :
  forall coin db limit cs r1 r2,
    let rows := selected coin db cs in
    In r1 rows -> In r2 rows -> wf_row r1 -> wf_row r2 ->
    r_oap r1 = r_dap r2 -> r_dap r1 = r_oap r2 -> r_sid r1 <> r_sid r2 ->
    let key := od_key (r_oap r1) (r_dap r1) in
    r_od r1 = key /\ r_od r2 = key
    /\ In (key, occurrences key rows) (sort_desc (tally rows))
    /\ 2 <= occurrences key rows
    /\ (forall c, In (key, c) (exec_frequent coin db limit cs) -> c = occurrences key rows).
Proof. exact both_directions_tallied_together. Qed.
Print Assumptions C14_both_directions_tallied_together.

(* sampling returns a subset of the unsampled answer.
   KNOWN GAP: only "subset" is a theorem.  "Of the expected size" is a statement about SQLite's random(); it is
   not proved — the harness judges the size of every sampled answer (also on re-execution and together with
   every-n-th-day selection) against a 6.5 sigma binomial band around fraction * |matches|. *)
Theorem C14_sample_is_subset :
  forall coin db cs r, In r (selected coin db cs) -> In r (selected no_coin db cs).
Proof. exact sample_subset. Qed.
Print Assumptions C14_sample_is_subset.

(* a query object is a value.  Code as found (conditions accumulate): for unsampled queries, executing
   after any number k+1 of SQL builds gives the answer of one build (rows, count, route tally) *)
Theorem C14_rebuild_idempotent :
  forall coin db eo q k, q_sample q = None ->
    match build_times false eo q (S k) [], build_times false eo q 1 [] with
    | Ok csk, Ok cs1 => exec_query coin db q csk = exec_query coin db q cs1
                        /\ exec_count coin db csk = exec_count coin db cs1
                        /\ tally (selected coin db csk) = tally (selected coin db cs1)
    | Err e, Err e' => e = e'
    | _, _ => False
    end.
Proof. exact rebuild_idempotent_noreset. Qed.
Print Assumptions C14_rebuild_idempotent.

(* specified / repaired (list rebuilt on every build): the condition list is the same for every query *)
Theorem C14_rebuild_idempotent_all_queries_when_reset :
  forall eo q k, build_times true eo q (S k) [] = build_times true eo q 1 [].
Proof. exact rebuild_idempotent_reset. Qed.
Print Assumptions C14_rebuild_idempotent_all_queries_when_reset.

(* FC14a, code as found: a sampled query is not a value — a second build adds a second, independent
   sampling conjunct; witness: 3 rows after one build, 0 after two *)
Theorem C14_sample_rebuild_before_fix_refuted :
  match build_times false true w_sampled 1 [], build_times false true w_sampled 2 [] with
  | Ok c1, Ok c2 => List.length (exec_query w_coin w_db w_sampled c1) = 3%nat
                    /\ List.length (exec_query w_coin w_db w_sampled c2) = 0%nat
  | _, _ => False
  end
  /\ build_times true true w_sampled 2 [] = build_times true true w_sampled 1 [].
Proof. exact sample_rebuild_witness. Qed.
Print Assumptions C14_sample_rebuild_before_fix_refuted.

(* a filter with no conditions selects everything (specification) *)
Theorem C14_empty_filter_selects_all :
  forall rs db k,
    run_query rs true db (plain (Some empty_filter)) (S k) = Ok (map r_sid (sort_by_dep db))
    /\ run_count rs true db (plain (Some empty_filter)) (S k) = Ok (Z.of_nat (List.length db)).
Proof. exact empty_filter_selects_all. Qed.
Print Assumptions C14_empty_filter_selects_all.

Theorem C14_conditionless_filter_selects_all :
  forall rs db f k, filter_legal f = true -> n_conditions f = 0 ->
    run_query rs true db (plain (Some f)) (S k) = Ok (map r_sid (sort_by_dep db))
    /\ run_count rs true db (plain (Some f)) (S k) = Ok (Z.of_nat (List.length db)).
Proof. exact no_condition_filter_selects_all. Qed.
Print Assumptions C14_conditionless_filter_selects_all.

Theorem C14_no_filter_selects_all :
  forall rs eo db k, run_query rs eo db (plain None) (S k) = Ok (map r_sid (sort_by_dep db)).
Proof. exact no_filter_selects_all. Qed.
Print Assumptions C14_no_filter_selects_all.

(* F12, code as found: Filter() crashes instead *)
Theorem C14_empty_filter_crashes_before_fix_refuted :
  forall rs db k,
    run_query rs false db (plain (Some empty_filter)) (S k) = Err EEmptyFilterCrash
    /\ run_count rs false db (plain (Some empty_filter)) (S k) = Err EEmptyFilterCrash.
Proof. exact empty_filter_crashes_before_fix. Qed.
Print Assumptions C14_empty_filter_crashes_before_fix_refuted.

(* illegal mixes of spatial conditions are refused, whatever else the query says *)
Theorem C14_illegal_spatial_mix_refused :
  forall rs eo q f k, q_filter q = Some f -> query_valid q = true -> filter_legal f = false ->
    build_times rs eo q (S k) [] = Err EIllegalSpatialMix.
Proof. exact illegal_mix_refused. Qed.
Print Assumptions C14_illegal_spatial_mix_refused.

Theorem C14_legal_spatial_mix_spec :
  forall f, filter_legal f = true <->
    ((n_combined f = 1 /\ n_origin f = 0 /\ n_destination f = 0)
     \/ (n_combined f = 0 /\ n_origin f <= 1 /\ n_destination f <= 1)).
Proof. exact filter_legal_spec. Qed.
Print Assumptions C14_legal_spatial_mix_spec.

Theorem C14_invalid_parameters_refused :
  forall rs eo q k, query_valid q = false -> build_times rs eo q (S k) [] = Err EInvalid.
Proof. exact invalid_query_refused. Qed.
Print Assumptions C14_invalid_parameters_refused.

Example C14_nonvacuous :
  filter_legal w_illegal = false
  /\ run_query false false w_db (plain (Some w_illegal)) 1 = Err EIllegalSpatialMix
  /\ run_query true true w_db (Query None (Some (2019, 1, 2)) (Some (2019, 1, 3)) None None None None) 3 = Ok [1; 2]
  /\ run_query false true w_db (Query None None None (Some 2) None (Some 5) (Some 0)) 2 = Ok [1; 3]
  /\ run_frequent true true w_db (plain None) 5 1 = Ok [("BOSLHR"%string, 3)].
Proof. exact witnesses_nonvacuous. Qed.

(* Start and end dates are UTC calendar days, both inclusive, whatever the zone of the machine.  (1) the two date
   conditions the model generates select exactly the departures whose UTC day (floor division, also before 1970) lies in
   [s, e]; (2) for EVERY non-zero zone offset below a day, bounds taken at local midnight give a different answer for
   some departure (seeded/C14-11: `datetime.astimezone()` on a naive midnight); (3) offset 0 is the UTC window.  The
   correspondence runs the midnight stream with TZ set to +9, -8/-7, +14 and +5:30. *)
Theorem C14_date_window_is_utc_days_only :
  (forall coin db i j s e r,
     eval_cond coin db i (CStart (86400 * s)) r && eval_cond coin db j (CEnd (86400 * (e + 1))) r =
     (s <=? r_dep r / 86400)%Z && (r_dep r / 86400 <=? e)%Z) /\
  (forall off, off <> 0%Z -> (-86400 < off < 86400)%Z -> forall s e, (s <= e)%Z ->
     exists dep, in_window s e dep <> in_window_zone off s e dep) /\
  (forall s e dep, in_window_zone 0 s e dep = in_window s e dep).
Proof. exact date_window_is_utc_days_only. Qed.
Print Assumptions C14_date_window_is_utc_days_only.

Example C14_date_window_nonvacuous :
  in_window 19000 19000 (86400 * 19000) = true /\ in_window 19000 19000 (86400 * 19000 + 86399) = true /\
  in_window 19000 19000 (86400 * 19001) = false /\ in_window_zone 32400 19000 19000 (86400 * 19000 - 1) = true.
Proof. exact date_window_nonvacuous. Qed.

(* C13 — property theorems only.  Each is closed by [exact] of a lemma from proofs/C13_Proofs.v.
   offO/offD (tz database) and geod (WGS-84 inverse problem) are universally quantified oracles. *)
From Coq Require Import ZArith List String Bool Sorted.
From AV Require Import lib.Dates model.C13_Model model.C13_Parse proofs.C13_Proofs proofs.C13_ParseProofs.
Import ListNotations.
Open Scope Z_scope.

(* exactly the dates of the effective range that fall on an operating weekday, each once, in order *)
Theorem C13_expand_spec :
  forall from to days d, In d (expand from to days) <-> (from <= d <= to /\ In (weekday d) days).
Proof. exact expand_In. Qed.
Print Assumptions C13_expand_spec.

Theorem C13_expand_nodup : forall from to days, NoDup (expand from to days).
Proof. exact expand_NoDup. Qed.
Print Assumptions C13_expand_nodup.

Theorem C13_expand_sorted : forall from to days, StronglySorted Z.lt (expand from to days).
Proof. exact expand_sorted. Qed.
Print Assumptions C13_expand_sorted.

Theorem C13_expand_single_day :
  forall d days, expand d d days = if in_days days d then [d] else [].
Proof. exact expand_single_day. Qed.
Print Assumptions C13_expand_single_day.

(* the flight record of an imported row carries the row's data and the number of kept instances *)
Theorem C13_count_recorded :
  forall offO offD geod fl excl year r ko kd o d miles s f insts w,
    import_row offO offD geod fl excl year r ko kd o d miles s = Imported f insts w ->
    insts = schedule offO offD year s /\ w = misordered offO offD year s /\
    f = (dow_mask (s_days s), s_dep s, s_arr s, s_arrday s,
         civil_from_days (effective_from year s), civil_from_days (effective_to year s),
         Z.of_nat (List.length insts)).
Proof. exact imported_count. Qed.
Print Assumptions C13_count_recorded.

(* open-ended ranges mean 1 January / 31 December of the data year ... *)
Theorem C13_open_ended_means_year_bounds :
  forall year s,
    (s_from s = None -> effective_from year s = jan1 year) /\
    (s_to s = None -> effective_to year s = dec31 year) /\
    (forall c, s_from s = Some c -> effective_from year s = civil_day c) /\
    (forall c, s_to s = Some c -> effective_to year s = civil_day c).
Proof. exact open_ended_defaults. Qed.
Print Assumptions C13_open_ended_means_year_bounds.

(* ... i.e. exactly the days whose civil year is the data year (calendar swept 1970-2099) *)
Theorem C13_open_ended_is_data_year :
  forall year s d, s_from s = None -> s_to s = None ->
    sweep_first_year <= year <= sweep_last_year -> 0 <= d <= sweep_last_day ->
    (effective_from year s <= d <= effective_to year s <-> year_of d = year).
Proof. exact open_ended_is_data_year. Qed.
Print Assumptions C13_open_ended_is_data_year.

(* the stored instances: one per expanded date whose arrival does not precede its departure, with
   UTC instants = local wall-clock time minus the zone's offset, arrival shifted by the day offset *)
Theorem C13_instance_times :
  forall offO offD year s i,
    In i (schedule offO offD year s) <->
    exists d, (effective_from year s <= d <= effective_to year s /\ In (weekday d) (s_days s))
              /\ i = (dep_utc offO s d, arr_utc offD s d, dep_utc offO s d / 86400)
              /\ dep_utc offO s d <= arr_utc offD s d.
Proof. exact schedule_In. Qed.
Print Assumptions C13_instance_times.

(* instances are dropped only when misordered, and then the warning is raised *)
Theorem C13_misordered_dropped_only :
  forall offO offD year s,
    (misordered offO offD year s = true <->
       exists d, (effective_from year s <= d <= effective_to year s /\ In (weekday d) (s_days s))
                 /\ arr_utc offD s d < dep_utc offO s d)
    /\ (misordered offO offD year s = false ->
        schedule offO offD year s =
        map (instance offO offD s) (expand (effective_from year s) (effective_to year s) (s_days s))).
Proof. exact misordered_dropped_only. Qed.
Print Assumptions C13_misordered_dropped_only.

(* rows are skipped exactly when a documented reason holds, and the reported reason is a true one.
   [documented_reason] is the property's notion: the distance reasons are evaluated on the geodesic of the two
   airports called (lon, lat, lon, lat) — the specification switches. *)
Theorem C13_skip_iff_documented_reason :
  forall offO offD geod excl year r ko kd o d miles s,
    ((exists k, import_row offO offD geod spec_flags excl year r ko kd o d miles s = Skipped k)
     <-> (exists k, documented_reason geod excl r ko kd o d miles k))
    /\ (forall k, import_row offO offD geod spec_flags excl year r ko kd o d miles s = Skipped k ->
                  documented_reason geod excl r ko kd o d miles k).
Proof. exact skip_iff_documented_reason_spec. Qed.
Print Assumptions C13_skip_iff_documented_reason.

(* NOT a statement about the property: for any switches — in particular the code as found, which calls the
   geodesic with latitude and longitude exchanged (F10) — a skip agrees with [reason_holds] evaluated AT THOSE
   SWITCHES, i.e. with the distance the code itself computed.  A row dropped because of F10 is "dropped for a
   reason" only in this as-found sense; under [C13_skip_iff_documented_reason] it is a violation
   (C13_distance_args_before_fix_refuted). *)
Theorem C13_skip_agrees_with_the_rule_as_coded_any_switches :
  forall offO offD geod fl excl year r ko kd o d miles s,
    ((exists k, import_row offO offD geod fl excl year r ko kd o d miles s = Skipped k)
     <-> (exists k, reason_holds geod fl excl r ko kd o d miles k))
    /\ (forall k, import_row offO offD geod fl excl year r ko kd o d miles s = Skipped k ->
                  reason_holds geod fl excl r ko kd o d miles k).
Proof. exact skip_iff_documented_reason. Qed.
Print Assumptions C13_skip_agrees_with_the_rule_as_coded_any_switches.

(* a valid row between known airports whose stated distance is within max(50 km, 10 %) of the geodesic
   distance (or is not stated) is imported, with exactly the schedule above — specification switches *)
Theorem C13_plausible_never_dropped :
  forall offO offD geod excl year r o d miles s g,
    row_skip_reason excl r = None ->
    geod (snd o) (fst o) (snd d) (fst d) = Some g -> 1000000 <= g ->
    (given_mm miles <= 0 \/ Z.abs (given_mm miles - g) <= 50000000 \/ 10 * Z.abs (given_mm miles - g) <= g) ->
    exists f, import_row offO offD geod spec_flags excl year r true true o d miles s
              = Imported f (schedule offO offD year s) (misordered offO offD year s).
Proof. exact plausible_imported. Qed.
Print Assumptions C13_plausible_never_dropped.

Theorem C13_repaired_importer_never_crashes :
  forall offO offD geod excl year r ko kd o d miles s sw,
    import_row offO offD geod (Flags sw false) excl year r ko kd o d miles s <> Crashed.
Proof. exact spec_never_crashes. Qed.
Print Assumptions C13_repaired_importer_never_crashes.

(* weekday mask: bit k-1 is set exactly for the operating weekdays *)
Theorem C13_dow_mask_spec :
  forall days, StronglySorted Z.lt days -> (forall d, In d days -> 1 <= d <= 7) ->
    (0 <= dow_mask days < 128) /\
    forall k, 1 <= k <= 7 -> (Z.testbit (dow_mask days) (k - 1) = true <-> In k days).
Proof. exact dow_mask_spec. Qed.
Print Assumptions C13_dow_mask_spec.

(* F10, code as found: with the geodesic called as (lat, lon, lat, lon) a correctly stated LHR-JFK row
   is dropped as suspicious; with (lon, lat, lon, lat) the same row is imported with 8 instances *)
Theorem C13_distance_args_before_fix_refuted :
  row_skip_reason ["BUS"%string] good_row = None /\
  witness_geod (snd lhr) (fst lhr) (snd jfk) (fst jfk) = Some 5554539940 /\
  Z.abs (given_mm 3451 - 5554539940) <= 50000000 /\
  import_row utc0 utc0 witness_geod (Flags true false) ["BUS"%string] 2019 good_row true true lhr jfk 3451 march_sched
    = Skipped SkipSuspiciousDistance /\
  exists f i w, import_row utc0 utc0 witness_geod spec_flags ["BUS"%string] 2019 good_row true true lhr jfk 3451 march_sched
    = Imported f i w /\ List.length i = 8%nat.
Proof. exact distance_args_witness. Qed.
Print Assumptions C13_distance_args_before_fix_refuted.

(* F11, code as found: an open-ended row aborts the import; specified: 104 instances (Mondays and
   Wednesdays of 2019) *)
Theorem C13_open_ended_before_fix_refuted :
  import_row utc0 utc0 witness_geod (Flags false true) ["BUS"%string] 2019 good_row true true lhr jfk 3451 open_sched = Crashed /\
  exists f i w, import_row utc0 utc0 witness_geod spec_flags ["BUS"%string] 2019 good_row true true lhr jfk 3451 open_sched
    = Imported f i w /\ List.length i = 104%nat /\ w = false.
Proof. exact open_ended_witness. Qed.
Print Assumptions C13_open_ended_before_fix_refuted.

(* calendar facts the model rests on (exhaustive sweep 1970-01-01 .. 2099-12-31) *)
Theorem C13_civil_roundtrip :
  forall y m d, sweep_first_year <= y <= sweep_last_year -> valid_date y m d = true ->
    civil_from_days (days_from_civil y m d) = (y, m, d).
Proof. exact civil_roundtrip_date. Qed.
Print Assumptions C13_civil_roundtrip.

Example C13_nonvacuous :
  expand 17956 17986 [1; 3] = [17959; 17961; 17966; 17968; 17973; 17975; 17980; 17982]
  /\ expand 18261 18263 [2; 3; 4] = [18261; 18262; 18263]
  /\ expand 17965 17965 [7] = [17965] /\ expand 17965 17965 [1] = [].
Proof. exact expand_nonvacuous. Qed.

(* the recorded effective dates are the row's own dates, or 1 January / 31 December of the data year
   (calendar swept 1970-2099) *)
Theorem C13_recorded_effective_dates :
  forall offO offD geod fl excl year r ko kd o d miles s mask dep arr ad efrom eto cnt insts w,
    import_row offO offD geod fl excl year r ko kd o d miles s = Imported (mask, dep, arr, ad, efrom, eto, cnt) insts w ->
    sweep_first_year <= year <= sweep_last_year ->
    (forall c, s_from s = Some c -> date_in_calendar c) -> (forall c, s_to s = Some c -> date_in_calendar c) ->
    efrom = match s_from s with Some c => c | None => (year, 1, 1) end
    /\ eto = match s_to s with Some c => c | None => (year, 12, 31) end.
Proof. exact imported_flight_dates. Qed.
Print Assumptions C13_recorded_effective_dates.

(* weekday is the calendar's: day 0 = 1970-01-01 is a Thursday (ISO 4); the civil date after a date is the next
   day number and carries the next weekday; distinct civil dates have distinct day numbers *)
Theorem C13_weekday_follows_the_calendar :
  civil_from_days 0 = (1970, 1, 1) /\ weekday 0 = 4
  /\ (forall z, 0 <= z < sweep_last_day ->
        civil_from_days (z + 1) = next_date (civil_from_days z)
        /\ weekday (z + 1) = (if weekday z =? 7 then 1 else weekday z + 1)).
Proof. exact weekday_follows_calendar. Qed.
Print Assumptions C13_weekday_follows_the_calendar.

Theorem C13_day_number_injective :
  forall y m d y' m' d',
    sweep_first_year <= y <= sweep_last_year -> sweep_first_year <= y' <= sweep_last_year ->
    valid_date y m d = true -> valid_date y' m' d' = true ->
    days_from_civil y m d = days_from_civil y' m' d' -> (y, m, d) = (y', m', d').
Proof. exact days_from_civil_injective. Qed.
Print Assumptions C13_day_number_injective.

(* ---- the CSV conventions in front of the importer (model/C13_Parse.v) ---- *)

(* a raw row in the plain grammar (digit strings, blank or numeric flight number, day-offset code or
   digits, dates a marker or a possible calendar date) is never dropped as unparsable *)
Theorem C13_plain_row_never_malformed :
  forall offO offD geod fl excl year w ko kd o d,
    plain_row w = true -> import_raw offO offD geod fl excl year w ko kd o d <> RMalformed.
Proof. exact plain_row_never_malformed. Qed.
Print Assumptions C13_plain_row_never_malformed.

(* what the importer does with a parsed row it does with the raw row *)
Theorem C13_raw_row_is_its_parse :
  forall offO offD geod fl excl year w ko kd o d r fltno miles seats s,
    parse_raw excl w = POk r fltno miles seats s ->
    import_raw offO offD geod fl excl year w ko kd o d =
    ROutcome fltno seats (import_row offO offD geod fl excl year r ko kd o d miles s).
Proof. exact import_raw_of_parsed. Qed.
Print Assumptions C13_raw_row_is_its_parse.

(* a raw row is skipped only for a documented reason (evaluated on its own fields; specification switches) *)
Theorem C13_raw_row_skipped_only_for_documented_reason :
  forall offO offD geod excl year w ko kd o d fltno seats k,
    import_raw offO offD geod spec_flags excl year w ko kd o d = ROutcome fltno seats (Skipped k) ->
    exists r miles, documented_reason geod excl r ko kd o d miles k
                    /\ c_carrier r = w_carrier w /\ c_service r = w_service w
                    /\ c_operating r = w_operating w /\ c_genacft r = w_genacft w
                    /\ py_int (w_stops w) = Some (c_stops r).
Proof. exact raw_skipped_documented_reason_spec. Qed.
Print Assumptions C13_raw_row_skipped_only_for_documented_reason.

Theorem C13_int_of_digit_string :
  forall s, all_digits s = true -> exists n, py_int s = Some n /\ 0 <= n.
Proof. exact py_int_all_digits. Qed.
Print Assumptions C13_int_of_digit_string.

Example C13_parse_nonvacuous :
  parse_date "00000000" = Some None /\ parse_date "99999999" = Some None
  /\ parse_date "20190115" = Some (Some (2019, 1, 15)) /\ parse_date "20190230" = None
  /\ parse_date "20200229" = Some (Some (2020, 2, 29)) /\ parse_date "2019011" = None /\ parse_date "" = None
  /\ parse_time "1730" = Some 1050 /\ parse_time "0000" = Some 0 /\ parse_time "17h0" = None
  /\ parse_arrday "P" = Some (-1) /\ parse_arrday " " = Some 0 /\ parse_arrday "" = Some 0
  /\ parse_arrday "2" = Some 2 /\ parse_arrday "X" = None
  /\ parse_days " 2  5 7" = [2; 5; 7] /\ parse_days "" = [] /\ parse_days "1234567" = [1; 2; 3; 4; 5; 6; 7]
  /\ py_int " 42 " = Some 42 /\ py_int "-7" = Some (-7) /\ py_int "+7" = Some 7 /\ py_int "" = None
  /\ py_int "4 2" = None /\ py_int "0000235" = Some 235.
Proof. exact parse_examples. Qed.

(* C16 — the dataset / hour-slice cache of Weather: property theorems only. Axiom-free (discrete model). *)
From Coq Require Import ZArith List Bool.
From AV Require Import model.C16_CacheModel proofs.C16_CacheProofs.
Import ListNotations.
Local Open Scope Z_scope.

(* For every sequence of queries on one Weather object (any days, hours, repetitions, files with or without a
   time axis), every query reads the hour slice (or whole file) of ITS OWN day and hour — whenever opening another
   file forgets the loaded slice or its hour index (either reset suffices; the key may be the path or the timestamp). *)
Theorem C16_cache_serves_the_queried_day_and_hour :
  forall (c : cfg) (taxis : Z -> bool), cfg_ok c = true ->
    forall ts, run c taxis empty ts = map (wanted taxis) ts.
Proof. intros c taxis H ts. apply run_correct_from_empty. exact H. Qed.
Print Assumptions C16_cache_serves_the_queried_day_and_hour.

Example C16_cache_cfg_nonvacuous : cfg_ok (mkCfg false true true) = true /\ cfg_ok (mkCfg true false true) = true.
Proof. exact cfg_ok_nonvacuous. Qed.

(* Without either reset (path-keyed dataset, slice kept): day 1 @ 12h then day 2 @ 12h reads day 1's slice again. *)
Theorem C16_cache_without_reset_refuted :
  let c := mkCfg true false false in
  let ts := [mkT 1 12 0; mkT 2 12 0] in
  run c (fun _ => true) empty ts <> map (wanted (fun _ => true)) ts.
Proof. exact stale_slice_witness. Qed.
Print Assumptions C16_cache_without_reset_refuted.

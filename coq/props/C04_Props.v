(* C04 — gridding conserves every integrated quantity.  Property theorems only; each is closed by [exact]
   of a lemma from proofs/.  Real-number semantics of coq/model/C04_Model.v; [dist] (WGS-84 geodesic
   length, an external oracle) is universally quantified under pseudo-metric hypotheses. *)
From Coq Require Import ZArith List Bool Reals Lra.
From AV Require Import lib.Num model.C04_Model proofs.C04_Proofs proofs.C05_Sorting proofs.C05_Cells proofs.C05_Proofs.
Import ListNotations.
Local Open Scope R_scope.

(* chain_wellformed: the chain of a segment starts at its start point, ends at its end point, has one more
   point than there are cells; piece i of [pairs chain] runs from chain point i to chain point i+1. *)
Theorem C04_chain_wellformed :
  forall clamp (glat glon : list R) (lat0 lon0 lat1 lon1 : R),
    @seg_geometry RNum clamp glat glon (lat0, lon0) (lat1, lon1)
      = (cells clamp glat glon lat0 lon0 lat1 lon1, chain clamp glat glon lat0 lon0 lat1 lon1) /\
    hd (0, 0) (chain clamp glat glon lat0 lon0 lat1 lon1) = (lat0, lon0) /\
    last (chain clamp glat glon lat0 lon0 lat1 lon1) (0, 0) = (lat1, lon1) /\
    length (chain clamp glat glon lat0 lon0 lat1 lon1) = S (length (cells clamp glat glon lat0 lon0 lat1 lon1)).
Proof. intros. split; [apply seg_geometry_unfold|apply chain_first_last]. Qed.
Print Assumptions C04_chain_wellformed.

Theorem C04_pieces_consecutive :
  forall (l : list (R * R)) d i, (S i < length l)%nat ->
    nth i (pairs l) (d, d) = (nth i l d, nth (S i) l d).
Proof. exact (@pairs_nth (R * R)). Qed.
Print Assumptions C04_pieces_consecutive.

(* pieces_sum: the pieces of a segment add up to v * (sum of piece lengths) / (segment length) *)
Theorem C04_pieces_sum :
  forall fix3 (v D : R) (ds : list R), D <> 0 -> Rsum (@seg_values RNum fix3 v D ds) = v * Rsum ds / D.
Proof. exact seg_values_sum. Qed.
Print Assumptions C04_pieces_sum.

(* the excess over the segment's value is exactly v * (sum ds / D - 1): nothing else is added or lost.
   PARTIAL w.r.t. the property's "small": how small the factor is depends on ellipsoid geometry and is not
   derivable from the metric hypotheses; the search oracle recomputes the factor independently and demands
   equality with it. *)
Theorem C04_excess_is_chord_factor_partial :
  forall fix3 (v D : R) (ds : list R), D <> 0 ->
    Rsum (@seg_values RNum fix3 v D ds) - v = v * (Rsum ds / D - 1).
Proof. exact seg_values_excess. Qed.
Print Assumptions C04_excess_is_chord_factor_partial.

(* conservation_ge, one trajectory part: for every pseudo-metric, non-negative values are never lost
   (as coded this needs: no zero-length segment; with the F3 repair it holds unconditionally) *)
Theorem C04_conservation_ge :
  forall (dist : R * R -> R * R -> R),
    (forall p q, 0 <= dist p q) ->
    (forall p q r, dist p r <= dist p q + dist q r) ->
    forall clamp fix3 fixdl fixe fixz (glat glon : list R) (pts : list (R * R)) (vars : list (list R)),
      count_nonzero (@crossings RNum (map snd pts)) = O ->
      Forall (fun var => length var = length (pairs pts) /\ Forall (fun v => 0 <= v) var) vars ->
      (fix3 = true \/ Forall (fun s => dist (fst s) (snd s) <> 0) (pairs pts)) ->
      Forall2 (fun var out => Rsum var <= Rsum out) vars
              (@grid_integrated RNum dist clamp fix3 fixdl fixe fixz glat glon pts vars).
Proof. exact grid_total_ge. Qed.
Print Assumptions C04_conservation_ge.

Theorem C04_conservation_ge_segment :
  forall fix3 (v D : R) (ds : list R), 0 <= v -> 0 < D -> D <= Rsum ds -> v <= Rsum (@seg_values RNum fix3 v D ds).
Proof. exact seg_values_ge. Qed.
Print Assumptions C04_conservation_ge_segment.

Example C04_conservation_ge_segment_nonvacuous :
  0 <= 2 /\ 0 < 1 /\ 1 <= Rsum [3/5; 3/5] /\ 2 < Rsum (@seg_values RNum false 2 1 [3/5; 3/5]).
Proof. repeat split; try (simpl; lra). rewrite seg_values_sum by lra. simpl. lra. Qed.

(* the chain of every segment is at least as long as the segment (polygon inequality) *)
Theorem C04_chain_not_shorter :
  forall (dist : R * R -> R * R -> R),
    (forall p q r, dist p r <= dist p q + dist q r) ->
    forall mid p q, dist p q <= Rsum (chain_dists dist (p :: mid ++ [q])).
Proof. exact polygon. Qed.
Print Assumptions C04_chain_not_shorter.

(* conservation_exact_on_additive_length *)
Theorem C04_conservation_exact_on_additive_length :
  forall (dist : R * R -> R * R -> R) clamp fix3 fixdl fixe fixz (glat glon : list R) (pts : list (R * R)) (var : list R),
    count_nonzero (@crossings RNum (map snd pts)) = O ->
    length var = length (pairs pts) ->
    Forall (fun x => fst x <> 0 /\ Rsum (snd x) = fst x)
           (@attach_dists RNum dist (@part_geometry RNum clamp glat glon pts)) ->
    forall out, @grid_integrated RNum dist clamp fix3 fixdl fixe fixz glat glon pts [var] = [out] -> Rsum out = Rsum var.
Proof. exact grid_total_exact. Qed.
Print Assumptions C04_conservation_exact_on_additive_length.

(* dateline_split_sums: the two parts of the crossing segment carry exactly the segment's value, and the
   whole split trajectory never loses anything *)
Theorem C04_dateline_split_sums :
  forall fixz (var : list R) i (len1 len2 : R), (i < length var)%nat -> len1 + len2 <> 0 ->
    Rsum (@first_vals RNum fixz var i len1 (len1 + len2)) + Rsum (@second_vals RNum fixz var i len2 (len1 + len2))
    = Rsum var.
Proof. exact split_vals_sum. Qed.
Print Assumptions C04_dateline_split_sums.

(* FC04a — a crossing segment of total length 0 (the same point given as -pi and as +pi).  Repaired: the value
   is kept.  As coded the split is v * 0 / 0: in binary64 a NaN (replayed on the implementation by the harness);
   the real-number reading of the model cannot express that, so the as-coded side is witnessed by the
   correspondence run (model at binary64 = implementation = NaN), not by a theorem over R. *)
Theorem C04_dateline_zero_length_kept_when_fixed :
  forall (var : list R) i (len1 len2 : R), (i < length var)%nat -> len1 + len2 = 0 ->
    Rsum (@first_vals RNum true var i len1 (len1 + len2)) + Rsum (@second_vals RNum true var i len2 (len1 + len2))
    = Rsum var.
Proof. exact split_vals_sum_zero_fixed. Qed.
Print Assumptions C04_dateline_zero_length_kept_when_fixed.

Theorem C04_dateline_conservation_ge :
  forall fix3 fixz i (var : list R) (dd1 dd2 : list (R * list R)),
    let len1 := fst (last dd1 (0, [])) in
    let len2 := fst (hd (0, []) dd2) in
    (i < length var)%nat -> (len1 + len2 <> 0 \/ fixz = true) ->
    Forall2 (good fix3) (@first_vals RNum fixz var i len1 (len1 + len2)) dd1 ->
    Forall2 (good fix3) (@second_vals RNum fixz var i len2 (len1 + len2)) dd2 ->
    forall out, @values RNum fix3 fixz 1%Z i [var] [dd1; dd2] = [out] -> Rsum var <= Rsum out.
Proof. exact values_dateline_ge. Qed.
Print Assumptions C04_dateline_conservation_ge.

(* zero_length_segment_kept (the specified behaviour; holds for the repaired fraction rule) *)
Theorem C04_zero_length_segment_kept :
  forall (v : R) (ds : list R), ds <> [] -> Rsum (@seg_values RNum true v 0 ds) = v.
Proof. exact seg_values_zero_fixed. Qed.
Print Assumptions C04_zero_length_segment_kept.

(* F3 — as coded (fraction 0 where the segment length is 0) the clause is false: a trajectory consisting of a
   repeated point carrying 5 is gridded to 0, for a pseudo-metric satisfying every hypothesis above *)
Theorem C04_zero_length_segment_dropped_refuted :
  exists (dist : R * R -> R * R -> R) (glat glon : list R) (pts : list (R * R)) (var out : list R),
    (forall p q, 0 <= dist p q) /\ (forall p, dist p p = 0) /\ (forall p q r, dist p r <= dist p q + dist q r) /\
    Forall (fun v => 0 <= v) var /\
    (forall clamp fixdl fixe fixz, @grid_integrated RNum dist clamp false fixdl fixe fixz glat glon pts [var] = [out]) /\
    Rsum out < Rsum var.
Proof.
  exists f3_dist, [0; 1], [0; 1], [(/2, /2); (/2, /2)], [5], [0].
  destruct f3_dist_metric as [A [B C]]. repeat split; auto.
  - repeat constructor. lra.
  - intros. apply zero_length_dropped_as_coded.
  - simpl. lra.
Qed.
Print Assumptions C04_zero_length_segment_dropped_refuted.

Theorem C04_zero_length_segment_kept_witness :
  forall clamp fixdl fixe fixz,
    @grid_integrated RNum f3_dist clamp true fixdl fixe fixz [0; 1] [0; 1] [(/2, /2); (/2, /2)] [[5]] = [[5]].
Proof. exact zero_length_kept_when_fixed. Qed.
Print Assumptions C04_zero_length_segment_kept_witness.

(* ---------- crossing the antimeridian once: whole call ---------- *)
From AV Require Import proofs.C04_Whole.

(* conservation_ge for a trajectory that crosses the antimeridian ONCE, end to end: geometry -> two parts ->
   proportional split -> piece values, for any pseudo-metric and any grid (repaired fraction rule and repaired
   zero-length split: the behaviour of the tree since F3 / FC04a) *)
Theorem C04_conservation_ge_crossing :
  forall (dist : R * R -> R * R -> R),
    (forall p q, 0 <= dist p q) ->
    (forall p q r, dist p r <= dist p q + dist q r) ->
    forall clamp fixdl fixe (glat glon : list R) (pts : list (R * R)) (var : list R),
      count_nonzero (@crossings RNum (map snd pts)) = 1%nat ->
      length var = length (pairs pts) ->
      Forall (fun v => 0 <= v) var ->
      forall out, @grid_integrated RNum dist clamp true fixdl fixe true glat glon pts [var] = [out] ->
                  Rsum var <= Rsum out.
Proof. exact grid_total_ge_crossing. Qed.
Print Assumptions C04_conservation_ge_crossing.

(* under the additive L1 metric the chain of EVERY admissible segment is exactly as long as the segment, so its
   pieces add up to exactly its value (conservation_exact_on_additive_length is not vacuous) *)
Theorem C04_l1_chain_exact :
  forall clamp (glat glon : list R) (lat0 lon0 lat1 lon1 : R),
    incr glat -> incr glon ->
    okx clamp glat lat0 -> okx clamp glat lat1 -> okx clamp glon lon0 -> okx clamp glon lon1 ->
    Rsum (chain_dists f3_dist (chain clamp glat glon lat0 lon0 lat1 lon1)) = f3_dist (lat0, lon0) (lat1, lon1).
Proof. exact l1_chain_exact. Qed.
Print Assumptions C04_l1_chain_exact.

(* a concrete whole call: 6 units on a segment crossing two latitude lines and one longitude line are gridded
   into FOUR pieces adding up to exactly 6 *)
Example C04_four_piece_segment_exact :
  exists out,
    @grid_integrated RNum f3_dist false true true true true [0; 1; 2; 3] [0; 1; 2; 3] [(/2, /2); (5/2, 2)] [[6]] = [out] /\
    length out = 4%nat /\ Rsum out = 6.
Proof. exact ex_four_pieces_exact. Qed.
Print Assumptions C04_four_piece_segment_exact.

(* C08 — lookup by flight identifier returns exactly the trajectory added with it.
   Property theorems only. *)
(* Scope of the model these theorems are about (shared by C07 C08 C09 C10):
   - ONE live TrajectoryStore handle at a time; a merge runs with no handle open;
   - the refinement theorem is about worlds whose file system holds store files only ([Inv]: no merged directory
     elsewhere); merged directories are covered by the merge / merged-read theorems (C09, C10);
   - a fault is an exception raised IN FRONT of a file-system call (the call has no effect); os.rename is atomic and
     stays on one device; a crash inside rename / json.dump is not modelled;
   - payloads are reduced to a tag, a flight id, the identity of the field sets and a size; the contents of the other
     fields are C03's subject. *)
From Coq Require Import ZArith List Bool.
From AV Require Import model.Store_Model proofs.Store_Proofs proofs.Store_IdWidth proofs.Store_Refine
                       proofs.Store_MergeProofs proofs.Store_MergedReads proofs.Store_Corollaries.
Import ListNotations.

(* Every history (additions in any identifier order, lookups immediately after additions — no sync —,
   syncs, close / reopen for reading or appending, in-memory stores, any evictions): get_flight answers
   what the identifier map of the specification answers.  [spec_step _ (GetFlight id)] is
   [sfind id items]; C08_spec_lookup_is_map says what that is. *)
Theorem C08_lookup_refines_map :
  forall ops w, Inv w -> hist_ok (abs w) ops ->
    map coarse (snd (run fixed_cfg w ops)) = snd (spec_run (abs w) ops).
Proof. intros ops w I H. exact (proj2 (proj2 (run_refines ops w I H))). Qed.
Print Assumptions C08_lookup_refines_map.

Theorem C08_spec_lookup_is_map :
  forall id l, NoDup (sids l) ->
    (forall t, sfind id l = Some t <-> In (t, Some id) l) /\ (sfind id l = None <-> ~ In id (sids l)).
Proof. exact spec_lookup_is_map. Qed.
Print Assumptions C08_spec_lookup_is_map.

(* the sorted (id, index) table with "first entry not below" search finds exactly the listed pairs *)
Theorem C08_table_lookup_correct :
  forall l x idx, NoDup (ids_of l) ->
    (table_lookup x (mk_table l) = Some idx <-> exists it, nth_error l idx = Some it /\ fid it = Some x).
Proof. exact mk_table_lookup. Qed.
Print Assumptions C08_table_lookup_correct.

Theorem C08_table_lookup_absent :
  forall l x, NoDup (ids_of l) -> (table_lookup x (mk_table l) = None <-> ~ In x (ids_of l)).
Proof. exact mk_table_lookup_none. Qed.
Print Assumptions C08_table_lookup_absent.

(* merged stores: the merged table (per-input tables shifted by the preceding lengths) is the table of
   the concatenation *)
Theorem C08_merged_table_lookup_correct :
  forall parts x idx, Forall part_fresh parts -> NoDup (ids_of (concat (map f_items parts))) ->
    (table_lookup x (isort (merged_pairs 0 parts)) = Some idx <->
     exists it, nth_error (concat (map f_items parts)) idx = Some it /\ fid it = Some x).
Proof. exact merged_table_lookup. Qed.
Print Assumptions C08_merged_table_lookup_correct.

(* a store is identified completely or not at all, in every file of every reachable world *)
Theorem C08_identified_all_or_none :
  forall w ops, Inv w -> hist_ok (abs w) ops ->
    forall p f, flookup p (w_fs (fst (run fixed_cfg w ops))) = Some (NFile f) ->
      (forall x, In x (f_items f) -> fid x <> None) \/ (forall x, In x (f_items f) -> fid x = None).
Proof. exact identified_all_or_none. Qed.
Print Assumptions C08_identified_all_or_none.

(* inconsistent identifier use is answered with an error and changes nothing *)
Theorem C08_inconsistent_identifier_use_rejected :
  forall w h t, Inv w -> w_h w = Some h -> h_mode h <> MRead ->
    acceptable (model_def (w_fs w) h) t = false ->
    exists e, step fixed_cfg w (Add t) = (w, OErr e) /\ coarse (OErr e) = OErr EReject.
Proof. exact invalid_add_is_rejected. Qed.
Print Assumptions C08_inconsistent_identifier_use_rejected.

(* F8 — as found: an in-memory identified store answers get_flight (and close) with KeyError 'base' *)
Theorem C08_inmemory_lookup_before_fix_refuted :
  snd (run cfg_F8 empty_world hist_F8) = [OUnit; OIdx 0; OErr EKeyBase; OErr EKeyBase] /\
  snd (run fixed_cfg empty_world hist_F8) = [OUnit; OIdx 0; OItem 0; OUnit] /\
  snd (spec_run (abs empty_world) hist_F8) = [OUnit; OIdx 0; OItem 0; OUnit].
Proof. exact inmemory_lookup_refuted. Qed.
Print Assumptions C08_inmemory_lookup_before_fix_refuted.

(* FC08a — as found: an append session on a store without identifiers accepts a trajectory with one;
   the file then holds [None; None; Some 9] and sync / close / get_flight fail an assertion *)
Theorem C08_append_mixed_ids_before_fix_refuted :
  nth 5 (snd (run cfg_C08a empty_world hist_C08a)) OUnit = OIdx 2 /\
  nth 6 (snd (run cfg_C08a empty_world hist_C08a)) OUnit = OErr EAssert /\
  (exists f, flookup P0 (w_fs (fst (run cfg_C08a empty_world hist_C08a))) = Some (NFile f) /\
             map fid (f_items f) = [None; None; Some 9%Z]) /\
  nth 5 (snd (run fixed_cfg empty_world hist_C08a)) OUnit = OErr EIdUse.
Proof. exact append_mixed_ids_refuted. Qed.
Print Assumptions C08_append_mixed_ids_before_fix_refuted.

Example C08_nonvacuous :
  hist_ok (abs empty_world) hist_demo /\
  nth 3 (snd (spec_run (abs empty_world) hist_demo)) OUnit = OItem 1 /\
  nth 14 (snd (spec_run (abs empty_world) hist_demo)) OUnit = OItem 0 /\
  nth 21 (snd (spec_run (abs empty_world) hist_demo)) OUnit = ONone /\
  nth 28 (snd (spec_run (abs empty_world) hist_demo)) OUnit = OItem 8.
Proof. split; [exact hist_demo_ok|]. rewrite hist_demo_outputs. repeat split. Qed.

(* Identifier width.  The model carries identifiers as unbounded Z; the files hold signed 64-bit integers and the
   index is built through numpy buffers.  [wrapw w x] is what a w-bit two's-complement buffer keeps of x.  With 64-bit
   buffers the index table and every lookup (hit and miss) are those of the unbounded model for EVERY identifier of the
   int64 range, so the other C08 theorems speak about the stored identifiers, not about an idealisation of them. *)
Theorem C08_lookup_exact_on_whole_int64_range : forall l x idx, ids_in_int64 l -> NoDup (ids_of l) ->
  mk_table (map (narrow_item 64) l) = mk_table l /\
  (table_lookup x (mk_table (map (narrow_item 64) l)) = Some idx <->
   exists it, nth_error l idx = Some it /\ fid it = Some x) /\
  (table_lookup x (mk_table (map (narrow_item 64) l)) = None <-> ~ In x (ids_of l)).
Proof. exact lookup_exact_on_int64. Qed.
Print Assumptions C08_lookup_exact_on_whole_int64_range.

Example C08_int64_nonvacuous : ids_in_int64 big_items /\ NoDup (ids_of big_items).
Proof. exact big_items_ok. Qed.

(* ... and with 32-bit buffers it would not be: a date-prefixed key and 2^32 + 7 are both lost, and 2^32 + 7 collides
   with 7 (the narrowed store is no longer "fully identified with distinct identifiers").  Formal content of
   seeded/C09-11; the correspondence runs identifiers beyond 2^31, 2^32 and 2^53 in every history. *)
Theorem C08_32bit_index_buffer_refuted :
  table_lookup 20260930000123 (mk_table big_items) = Some 0%nat /\
  table_lookup 20260930000123 (mk_table (map (narrow_item 32) big_items)) = None /\
  table_lookup 4294967303 (mk_table big_items) = Some 2%nat /\
  table_lookup 4294967303 (mk_table (map (narrow_item 32) big_items)) = None /\
  ~ NoDup (ids_of (map (narrow_item 32) big_items)).
Proof. exact narrow32_loses_identifiers. Qed.
Print Assumptions C08_32bit_index_buffer_refuted.

(* C20 — property theorems only.  Each is closed by [exact] of a lemma from proofs/C20_Proofs.v.
   [guard_locked] / [guard_as_coded] are tied to TrajectoryStore.__init__ in link/C20_Link.v (the text is
   re-extracted on every run) and by the exhaustive statement-level scheduler of harness/c20.py.

   Residual assumptions of the model (none of them is a Coq axiom; they are what the tie cannot check):
   - [EvOk t] means "a constructor call of thread t passed the guard" — whether the rest of the constructor
     then succeeds is irrelevant to who may own stores (a thread whose first constructor fails after the
     guard is the owner all the same);
   - acquiring the class-level lock is one atomic test-and-set (threading.Lock), releasing it one atomic
     write; a waiter never proceeds without the lock (no timeout) — the translator accepts only
     `with <Class>.<lock>:` on a class-level threading.Lock()/RLock();
   - thread identities [tid] are distinct for distinct threads for as long as the owner is recorded: true for
     thread OBJECTS (the repaired code, F-C20a) — the recorded object keeps the thread alive as an object; not
     true for threading.get_ident() values after a thread has exited (checked by the sequential-exit cases).
     The main thread is just another [tid]: the theorems quantify over all thread ids, and the scheduler
     races it against worker threads as well;
   - one STATEMENT of the guard per step: justified by [C20_statement_heads_access_once] below (each
     statement head touches the shared attribute at most once; the translator checks that the attribute
     occurs exactly once in each guard statement head), under CPython's GIL making a single attribute read
     or write atomic;
   - close() and every other method leave active_in_thread alone (checked by the translator). *)
From Coq Require Import List Bool Arith.
From AV Require Import model.C20_Model proofs.C20_Proofs.
Import ListNotations.

(* For every number of threads, every number of constructor calls per thread (so also calls made
   after a store was closed), and every schedule of any length at statement granularity: all
   constructor guards that ever succeed belong to one and the same thread. *)
Theorem C20_single_owner_all_schedules :
  forall (calls : tid -> nat) (sched : list tid) (t1 t2 : tid),
    let st := run guard_locked sched (init guard_locked calls) in
    In (EvOk t1) (log st) -> In (EvOk t2) (log st) -> t1 = t2.
Proof. exact locked_single_owner. Qed.
Print Assumptions C20_single_owner_all_schedules.

(* Once set, the owning thread never changes, whatever happens afterwards. *)
Theorem C20_owner_never_changes :
  forall calls s1 s2 o,
    owner (run guard_locked s1 (init guard_locked calls)) = Some o ->
    owner (run guard_locked (s1 ++ s2) (init guard_locked calls)) = Some o.
Proof. exact locked_owner_never_changes. Qed.
Print Assumptions C20_owner_never_changes.

(* Once any thread owns the stores, no attempt of any other thread ever succeeds. *)
Theorem C20_other_threads_refused :
  forall calls s1 s2 o t,
    owner (run guard_locked s1 (init guard_locked calls)) = Some o ->
    In (EvOk t) (log (run guard_locked (s1 ++ s2) (init guard_locked calls))) -> t = o.
Proof. exact locked_other_threads_refused. Qed.
Print Assumptions C20_other_threads_refused.

Theorem C20_success_implies_owner :
  forall calls sched t,
    let st := run guard_locked sched (init guard_locked calls) in
    In (EvOk t) (log st) -> owner st = Some t.
Proof. exact locked_success_implies_owner. Qed.
Print Assumptions C20_success_implies_owner.

(* The lock: mutual exclusion of the check-and-set section for all schedules, and no deadlock. *)
Theorem C20_mutual_exclusion :
  forall calls sched t u,
    let st := run guard_locked sched (init guard_locked calls) in
    In FRelease (t_cont (thr st t)) -> In FRelease (t_cont (thr st u)) -> t = u.
Proof. exact locked_mutual_exclusion. Qed.
Print Assumptions C20_mutual_exclusion.

Theorem C20_lock_holder_never_blocked :
  forall calls sched h,
    let st := run guard_locked sched (init guard_locked calls) in
    lockh st = Some h ->
    snd (step guard_locked h st) <> LbBlocked /\ snd (step guard_locked h st) <> LbIdle.
Proof. exact locked_holder_not_blocked. Qed.
Print Assumptions C20_lock_holder_never_blocked.

Theorem C20_blocked_only_while_lock_held_by_another :
  forall calls sched t,
    let st := run guard_locked sched (init guard_locked calls) in
    snd (step guard_locked t st) = LbBlocked -> exists h, lockh st = Some h /\ h <> t.
Proof. exact locked_blocked_only_by_holder. Qed.
Print Assumptions C20_blocked_only_while_lock_held_by_another.

(* The guard is not satisfied vacuously by refusing everybody: the first call to finish succeeds. *)
Theorem C20_first_finished_call_succeeds :
  forall calls sched,
    let st := run guard_locked sched (init guard_locked calls) in
    log st <> [] -> exists t, last (log st) (EvRefused 0) = EvOk t.
Proof. exact locked_first_finished_call_succeeds. Qed.
Print Assumptions C20_first_finished_call_succeeds.

(* Statement granularity: the head of every guard statement accesses the shared attribute at most once, and the
   owner changes only in a step that executes the assignment. *)
Theorem C20_statement_heads_access_once : forall s, head_accesses s <= 1.
Proof. exact statement_heads_access_once. Qed.
Print Assumptions C20_statement_heads_access_once.

Theorem C20_owner_written_only_by_the_assignment :
  forall prog t st, owner (fst (step prog t st)) <> owner st -> exists k, t_cont (thr st t) = FStmt GSet :: k.
Proof. exact step_changes_owner_only_by_set. Qed.
Print Assumptions C20_owner_written_only_by_the_assignment.

(* The guard as the property specifies it (check and set as one indivisible step), on the very
   statements of the source: any order of whole calls keeps a single owner.  This is why the
   repository's own test (second thread started after the first finished) passes. *)
Theorem C20_single_owner_atomic_guard :
  forall fuel calls sched t1 t2, 4 <= fuel ->
    let st := run_atomic guard_as_coded fuel sched (init guard_as_coded calls) in
    In (EvOk t1) (log st) -> In (EvOk t2) (log st) -> t1 = t2.
Proof. exact atomic_single_owner. Qed.
Print Assumptions C20_single_owner_atomic_guard.

(* The finding (F19): the statements as coded, interleaved at statement granularity, let two
   owners; kept as documentation of the behaviour before the repair. *)
Theorem C20_race_two_owners_before_fix_refuted :
  exists sched,
    let st := run guard_as_coded sched (init guard_as_coded two_first_calls) in
    In (EvOk 0) (log st) /\ In (EvOk 1) (log st).
Proof. exact race_two_owners. Qed.
Print Assumptions C20_race_two_owners_before_fix_refuted.

Theorem C20_owner_changes_before_fix_refuted :
  exists s1 s2,
    owner (run guard_as_coded s1 (init guard_as_coded two_first_calls)) = Some 0 /\
    owner (run guard_as_coded (s1 ++ s2) (init guard_as_coded two_first_calls)) = Some 1.
Proof. exact owner_changes_as_coded. Qed.
Print Assumptions C20_owner_changes_before_fix_refuted.

(* non-vacuity: the racing schedule, run on the locked guard, ends with thread 0 accepted and
   thread 1 refused *)
Example C20_nonvacuous :
  let st := run guard_locked [0; 1; 0; 1; 0; 0; 1; 1; 1; 1; 1] (init guard_locked two_first_calls) in
  log st = [EvRefused 1; EvOk 0] /\ owner st = Some 0.
Proof. exact race_schedule_locked. Qed.

(* C06 — property theorems only.  Each is closed by [exact] of a lemma from proofs/C06_*.v.
   All statements are about the real-number instance (RNum) of model/C06_Model.v.
   [swF] = the repaired behaviour (both switches on); [conv] = the altitude -> flight-level conversion, a
   parameter here; the conversion regenerated from the source is discharged in link/C06_Link_F4*.v. *)
From Coq Require Import List Reals Bool Arith PrimFloat.
From AV Require Import lib.Num lib.FloatMath model.C06_Model proofs.C06_Lists proofs.C06_Proofs proofs.C06_Continuity proofs.C06_PTF proofs.C06_Witness.
Import ListNotations.
Local Open Scope R_scope.

(* (1) at every tabulated (flight level, mass) of a phase whose sub-table passes validation, the model returns
       exactly the tabulated airspeed, climb/descent rate and fuel flow *)
Theorem C06_node_exact :
  forall sw (conv : R -> R) rows p (r : row RNum) alt,
    sw_sort sw = true -> sw_set sw = true ->
    @validate RNum sw (@subset RNum p rows) = None ->
    In r (@subset RNum p rows) -> conv alt = r_fl r ->
    @evaluate RNum sw conv rows p alt (@MVal RNum (r_mass r)) = @Ok RNum (r_tas r) (r_rocd r) (r_ff r).
Proof. exact node_exact. Qed.
Print Assumptions C06_node_exact.

(* (1') ... also when the level is expressed in metres with a factor [c] that [conv] inverts
        (link/C06_Link_F4fixed.v: the regenerated conversion inverts the regenerated FL_TO_METERS;
         link/C06_Link_F4open.v: for the shipped constants it does not -- finding F4) *)
Theorem C06_node_exact_in_metres :
  forall sw (conv : R -> R) (c : R) rows p (r : row RNum),
    sw_sort sw = true -> sw_set sw = true ->
    (forall f, conv (f * c) = f) ->
    @validate RNum sw (@subset RNum p rows) = None ->
    In r (@subset RNum p rows) ->
    @evaluate RNum sw conv rows p (r_fl r * c) (@MVal RNum (r_mass r)) = @Ok RNum (r_tas r) (r_rocd r) (r_ff r).
Proof. exact node_exact_in_metres. Qed.
Print Assumptions C06_node_exact_in_metres.

(* (2) between table points every output lies between the smallest and the largest of the table values at the
       rows on the enclosing grid lines (4 rows with several masses, 2 rows in a single-mass phase) *)
Theorem C06_bounded_by_corners :
  forall sw (conv : R -> R) rows p alt q t rc ff,
    sw_sort sw = true -> sw_set sw = true ->
    @evaluate RNum sw conv rows p alt q = @Ok RNum t rc ff ->
    exists cs : list (row RNum), cs <> [] /\
      (forall c, In c cs -> In c (@subset RNum p rows)) /\
      surrounding (@subset RNum p rows) (conv alt) (@resolve_mass RNum rows q) cs /\
      forall v lo hi, (forall c, In c cs -> lo <= @sel RNum v c <= hi) -> lo <= out v (@Ok RNum t rc ff) <= hi.
Proof. exact bounded_by_corners. Qed.
Print Assumptions C06_bounded_by_corners.

(* (3) continuity.  Every output is Lipschitz, hence continuous, in (flight level, mass) on the set of states for
       which a value is returned; through any Lipschitz altitude conversion (link: the regenerated one is) this is the
       epsilon-delta statement in (altitude, mass).  Also kept: the returned value is the cell formula of the enclosing
       cell, that formula is affine in each coordinate, and two cells sharing an edge agree on it. *)
Theorem C06_evaluate_continuous :
  forall sw (conv : R -> R) (K : R) rows p,
    0 <= K -> (forall a a', Rabs (conv a' - conv a) <= K * Rabs (a' - a)) ->
    forall v alt m t rc ff,
      @evaluate RNum sw conv rows p alt (@MVal RNum m) = @Ok RNum t rc ff ->
      forall eps, 0 < eps ->
      exists delta, 0 < delta /\
        forall alt' m' t' rc' ff',
          Rabs (alt' - alt) < delta -> Rabs (m' - m) < delta ->
          @evaluate RNum sw conv rows p alt' (@MVal RNum m') = @Ok RNum t' rc' ff' ->
          Rabs (out v (@Ok RNum t' rc' ff') - out v (@Ok RNum t rc ff)) < eps.
Proof. exact evaluate_continuous. Qed.
Print Assumptions C06_evaluate_continuous.

Theorem C06_interp_phase_lipschitz :
  forall sw (sub : list (row RNum)),
    exists Lf Lm, 0 <= Lf /\ 0 <= Lm /\
      forall v x m x' m' t rc ff t' rc' ff',
        @interp_phase RNum sw sub x m = @Ok RNum t rc ff ->
        @interp_phase RNum sw sub x' m' = @Ok RNum t' rc' ff' ->
        Rabs (out v (@Ok RNum t' rc' ff') - out v (@Ok RNum t rc ff)) <= Lf * Rabs (x' - x) + Lm * Rabs (m' - m).
Proof. exact interp_phase_lipschitz. Qed.
Print Assumptions C06_interp_phase_lipschitz.

Theorem C06_edge_agreement :
  (forall V f0 f1 f2 m0 m1 m, f0 < f1 -> f1 < f2 ->
     cell_value V f0 f1 m0 m1 f1 m = cell_value V f1 f2 m0 m1 f1 m) /\
  (forall V f0 f1 m0 m1 m2 x, m0 < m1 -> m1 < m2 ->
     cell_value V f0 f1 m0 m1 x m1 = cell_value V f0 f1 m1 m2 x m1) /\
  (forall V f0 f1 f2, f0 < f1 -> f1 < f2 -> seg_value V f0 f1 f1 = seg_value V f1 f2 f1).
Proof. exact (conj edge_agreement_fl (conj edge_agreement_mass edge_agreement_seg)). Qed.
Print Assumptions C06_edge_agreement.

Theorem C06_affine_in_cell :
  (forall V f0 f1 m0 m1 x x' m, f0 < f1 ->
     cell_value V f0 f1 m0 m1 x' m - cell_value V f0 f1 m0 m1 x m
     = (x' - x) * ((cell_value V f0 f1 m0 m1 f1 m - cell_value V f0 f1 m0 m1 f0 m) / (f1 - f0))) /\
  (forall V f0 f1 m0 m1 x m m', m0 < m1 ->
     cell_value V f0 f1 m0 m1 x m' - cell_value V f0 f1 m0 m1 x m
     = (m' - m) * ((cell_value V f0 f1 m0 m1 x m1 - cell_value V f0 f1 m0 m1 x m0) / (m1 - m0))).
Proof. exact (conj cell_value_affine_fl cell_value_affine_mass). Qed.
Print Assumptions C06_affine_in_cell.

Theorem C06_evaluate_is_cell_value :
  forall sw (conv : R -> R) rows p alt q t rc ff,
    @evaluate RNum sw conv rows p alt q = @Ok RNum t rc ff ->
    let sub := @subset RNum p rows in
    (1 < length (@masses RNum sub))%nat ->
    exists f0 f1 m0 m1 yf ym,
      @bracket RNum (@fls RNum sub) (conv alt) = Some (f0, f1, yf) /\
      @bracket RNum (@masses RNum sub) (@resolve_mass RNum rows q) = Some (m0, m1, ym) /\
      forall v, out v (@Ok RNum t rc ff) = @bil RNum (@node_val RNum v sub) (f0, f1, yf) (m0, m1, ym).
Proof. exact evaluate_is_cell_value. Qed.
Print Assumptions C06_evaluate_is_cell_value.

(* (4) the outcome depends on the altitude only through the flight level; table, phase, level, mass decide it.
       NOTE: this holds by construction -- the model is a pure function, it has no state to depend on.  It says nothing
       about the implementation's lazily built per-table interpolator cache (or any other process state): that the
       real evaluate() is history-free is established only by the correspondence, in particular by the `session` cases
       (several models with one grid in one process, re-loads, one AircraftState object reused across models). *)
Theorem C06_depends_only_on_alt_mass_phase :
  forall sw (conv conv' : R -> R) rows p alt alt' q,
    conv alt = conv' alt' ->
    @evaluate RNum sw conv rows p alt q = @evaluate RNum sw conv' rows p alt' q.
Proof. exact depends_only_on_alt_mass_phase. Qed.
Print Assumptions C06_depends_only_on_alt_mass_phase.

(* (5) no extrapolation: with a validated phase sub-table the query is rejected with "out of bounds in dimension 0"
       iff the level is below every tabulated level of the phase or above every one; with "dimension 1" iff the level
       is inside, the phase has several masses and the mass is below / above every tabulated mass; a value is returned
       iff the level is inside and (the phase has one mass or the mass is inside) *)
Theorem C06_outside_rejected :
  forall sw (conv : R -> R) rows p alt q,
    @validate RNum sw (@subset RNum p rows) = None ->
    let sub := @subset RNum p rows in
    let x := conv alt in
    let m := @resolve_mass RNum rows q in
    let res := @evaluate RNum sw conv rows p alt q in
    (res = @Rej RNum (EBounds 0) <-> outside sub (@r_fl RNum) x) /\
    (res = @Rej RNum (EBounds 1) <->
       ~ outside sub (@r_fl RNum) x /\ (1 < length (@masses RNum sub))%nat /\ outside sub (@r_mass RNum) m) /\
    ((exists t rc ff, res = @Ok RNum t rc ff) <->
       ~ outside sub (@r_fl RNum) x /\ ((1 < length (@masses RNum sub))%nat -> ~ outside sub (@r_mass RNum) m)).
Proof. exact outside_rejected. Qed.
Print Assumptions C06_outside_rejected.

Theorem C06_single_mass_phase_ignores_mass :
  forall sw (conv : R -> R) rows p alt q q',
    (length (@masses RNum (@subset RNum p rows)) <= 1)%nat ->
    @evaluate RNum sw conv rows p alt q = @evaluate RNum sw conv rows p alt q'.
Proof. exact single_mass_phase_ignores_mass. Qed.
Print Assumptions C06_single_mass_phase_ignores_mass.

(* a phase that answers at all has the masses of its kind: three, or one in descent *)
Theorem C06_evaluated_phase_has_its_masses :
  forall sw (conv : R -> R) rows p alt q t rc ff,
    @evaluate RNum sw conv rows p alt q = @Ok RNum t rc ff ->
    length (@masses RNum (@subset RNum p rows)) = match p with Descent => 1%nat | _ => 3%nat end.
Proof. exact evaluated_phase_has_its_masses. Qed.
Print Assumptions C06_evaluated_phase_has_its_masses.

(* (6) symbolic minimum / maximum mass = the extreme masses of the table *)
Theorem C06_minmax_mass_are_extremes :
  forall rows : list (row RNum), rows <> [] ->
    (exists r, In r rows /\ r_mass r = @resolve_mass RNum rows (@MMin RNum)) /\
    (forall r, In r rows -> @resolve_mass RNum rows (@MMin RNum) <= r_mass r) /\
    (exists r, In r rows /\ r_mass r = @resolve_mass RNum rows (@MMax RNum)) /\
    (forall r, In r rows -> r_mass r <= @resolve_mass RNum rows (@MMax RNum)).
Proof. exact minmax_mass_are_extremes. Qed.
Print Assumptions C06_minmax_mass_are_extremes.

Theorem C06_symbolic_mass_is_that_mass :
  forall sw (conv : R -> R) rows p alt,
    @evaluate RNum sw conv rows p alt (@MMin RNum)
      = @evaluate RNum sw conv rows p alt (@MVal RNum (@resolve_mass RNum rows (@MMin RNum))) /\
    @evaluate RNum sw conv rows p alt (@MMax RNum)
      = @evaluate RNum sw conv rows p alt (@MVal RNum (@resolve_mass RNum rows (@MMax RNum))).
Proof. exact symbolic_mass_is_that_mass. Qed.
Print Assumptions C06_symbolic_mass_is_that_mass.

(* (7) every row of a PTF file is reproduced by the table built from it, after unit conversion with the factors
       KN (knots -> m/s), FPM (ft/min -> m/s), M2S (per minute -> per second); rates beyond the ROCD tolerance *)
Theorem C06_ptf_climb_rows_reproduced :
  forall (KN FPM M2S : R) (conv : R -> R) (P : ptf RNum) c alt,
    let rows := @build_table RNum KN FPM M2S P in
    @validate RNum swF (@subset RNum Climb rows) = None ->
    In c (p_climb P) ->
    @tol RNum < pc_lo c * FPM -> @tol RNum < pc_nom c * FPM -> @tol RNum < pc_hi c * FPM ->
    conv alt = pc_fl c ->
    @evaluate RNum swF conv rows Climb alt (@MVal RNum (p_low P))
      = @Ok RNum (pc_tas c * KN) (pc_lo c * FPM) (pc_ff c / M2S) /\
    @evaluate RNum swF conv rows Climb alt (@MVal RNum (p_nom P))
      = @Ok RNum (pc_tas c * KN) (pc_nom c * FPM) (pc_ff c / M2S) /\
    @evaluate RNum swF conv rows Climb alt (@MVal RNum (p_high P))
      = @Ok RNum (pc_tas c * KN) (pc_hi c * FPM) (pc_ff c / M2S).
Proof. exact ptf_climb_rows_reproduced. Qed.
Print Assumptions C06_ptf_climb_rows_reproduced.

Theorem C06_ptf_cruise_rows_reproduced :
  forall (KN FPM M2S : R) (conv : R -> R) (P : ptf RNum) c alt,
    let rows := @build_table RNum KN FPM M2S P in
    @validate RNum swF (@subset RNum Cruise rows) = None ->
    In c (p_cruise P) ->
    conv alt = pr_fl c ->
    @evaluate RNum swF conv rows Cruise alt (@MVal RNum (p_low P)) = @Ok RNum (pr_tas c * KN) 0 (pr_lo c / M2S) /\
    @evaluate RNum swF conv rows Cruise alt (@MVal RNum (p_nom P)) = @Ok RNum (pr_tas c * KN) 0 (pr_nom c / M2S) /\
    @evaluate RNum swF conv rows Cruise alt (@MVal RNum (p_high P)) = @Ok RNum (pr_tas c * KN) 0 (pr_hi c / M2S).
Proof. exact ptf_cruise_rows_reproduced. Qed.
Print Assumptions C06_ptf_cruise_rows_reproduced.

Theorem C06_ptf_descent_rows_reproduced :
  forall (KN FPM M2S : R) (conv : R -> R) (P : ptf RNum) d alt,
    let rows := @build_table RNum KN FPM M2S P in
    @validate RNum swF (@subset RNum Descent rows) = None ->
    In d (p_descent P) ->
    (- pd_rocd d) * FPM < - @tol RNum ->
    conv alt = pd_fl d ->
    @evaluate RNum swF conv rows Descent alt (@MVal RNum (p_nom P))
      = @Ok RNum (pd_tas d * KN) ((- pd_rocd d) * FPM) (pd_ff d / M2S).
Proof. exact ptf_descent_rows_reproduced. Qed.
Print Assumptions C06_ptf_descent_rows_reproduced.

(* (7') the hypotheses of (7) are discharged for every well-formed PTF content ([wf_ptf]: low < nominal < high mass, no
        level twice in a block, at least one row, every rate beyond the ROCD tolerance after conversion): the generated
        table is accepted at load, every non-empty phase validates, and every row is returned *)
Theorem C06_ptf_table_valid :
  forall (KN FPM M2S : R) (P : ptf RNum), @wf_ptf RNum FPM P = true ->
    let rows := @build_table RNum KN FPM M2S P in
    @load RNum swF rows = None /\
    (p_climb P <> [] -> @validate RNum swF (@subset RNum Climb rows) = None) /\
    (p_cruise P <> [] -> @validate RNum swF (@subset RNum Cruise rows) = None) /\
    (p_descent P <> [] -> @validate RNum swF (@subset RNum Descent rows) = None).
Proof.
  exact (fun KN FPM M2S P H =>
           conj (ptf_table_loads KN FPM M2S P H)
                (conj (ptf_phase_valid KN FPM M2S P H Climb)
                      (conj (ptf_phase_valid KN FPM M2S P H Cruise) (ptf_phase_valid KN FPM M2S P H Descent)))).
Qed.
Print Assumptions C06_ptf_table_valid.

Theorem C06_ptf_wf_rows_reproduced :
  forall (KN FPM M2S : R) (conv : R -> R) (P : ptf RNum), @wf_ptf RNum FPM P = true ->
    let rows := @build_table RNum KN FPM M2S P in
    (forall c alt, In c (p_climb P) -> conv alt = pc_fl c ->
       @evaluate RNum swF conv rows Climb alt (@MVal RNum (p_low P))
         = @Ok RNum (pc_tas c * KN) (pc_lo c * FPM) (pc_ff c / M2S) /\
       @evaluate RNum swF conv rows Climb alt (@MVal RNum (p_nom P))
         = @Ok RNum (pc_tas c * KN) (pc_nom c * FPM) (pc_ff c / M2S) /\
       @evaluate RNum swF conv rows Climb alt (@MVal RNum (p_high P))
         = @Ok RNum (pc_tas c * KN) (pc_hi c * FPM) (pc_ff c / M2S)) /\
    (forall c alt, In c (p_cruise P) -> conv alt = pr_fl c ->
       @evaluate RNum swF conv rows Cruise alt (@MVal RNum (p_low P)) = @Ok RNum (pr_tas c * KN) 0 (pr_lo c / M2S) /\
       @evaluate RNum swF conv rows Cruise alt (@MVal RNum (p_nom P)) = @Ok RNum (pr_tas c * KN) 0 (pr_nom c / M2S) /\
       @evaluate RNum swF conv rows Cruise alt (@MVal RNum (p_high P)) = @Ok RNum (pr_tas c * KN) 0 (pr_hi c / M2S)) /\
    (forall d alt m, In d (p_descent P) -> conv alt = pd_fl d ->
       @evaluate RNum swF conv rows Descent alt (@MVal RNum m)
         = @Ok RNum (pd_tas d * KN) ((- pd_rocd d) * FPM) (pd_ff d / M2S)).
Proof.
  exact (fun KN FPM M2S conv P H =>
           conj (ptf_wf_climb_rows_reproduced KN FPM M2S conv P H)
                (conj (ptf_wf_cruise_rows_reproduced KN FPM M2S conv P H)
                      (ptf_wf_descent_rows_reproduced KN FPM M2S conv P H))).
Qed.
Print Assumptions C06_ptf_wf_rows_reproduced.

(* FC06d (known): outside [wf_ptf] lie the files BADA really writes -- a rate of climb of 0 fpm for a mass that cannot
   climb.  Whenever such an entry (within the ROCD tolerance) sits at a level that also has a cruise row, the generated
   table is refused at load, so no row of that file is reproduced. *)
Theorem C06_ptf_zero_climb_rate_refused :
  forall (KN FPM M2S : R) (P : ptf RNum) c r,
    In c (p_climb P) -> In r (p_cruise P) -> pr_fl r = pc_fl c ->
    - @tol RNum <= pc_hi c * FPM <= @tol RNum ->
    exists e, @load RNum swF (@build_table RNum KN FPM M2S P) = Some e.
Proof. exact ptf_zero_climb_rate_refused. Qed.
Print Assumptions C06_ptf_zero_climb_rate_refused.

Theorem C06_ptf_rows_reproduced_for_bada_files_refuted :
  exists P : ptf RNum, @bada_ptf RNum P = true /\ exists e, @load RNum swF (@build_table RNum 1 1 1 P) = Some e.
Proof. exact ptf_zero_climb_rate_refuted. Qed.
Print Assumptions C06_ptf_rows_reproduced_for_bada_files_refuted.

Example C06_wf_ptf_nonvacuous : @wf_ptf RNum 1 w_ptf1 = true.
Proof. exact w_ptf1_wf. Qed.

(* (8) load-time validation (repaired coverage test) accepts a table iff it has the required number of masses, every
       phase sub-table is a complete flight-level x mass grid, and the FL-only columns are functions of the level *)
Theorem C06_incomplete_grid_refused :
  forall sw rows, sw_set sw = true ->
    (@load RNum sw rows = None <->
     length (@masses RNum rows) = @required_masses RNum rows /\
     (forall p, full_grid (@subset RNum p rows)) /\
     fl_only VTas (@subset RNum Cruise rows) /\
     fl_only VTas (@subset RNum Climb rows) /\ fl_only VFf (@subset RNum Climb rows) /\
     fl_only VTas (@subset RNum Descent rows) /\ fl_only VFf (@subset RNum Descent rows) /\
     fl_only VRocd (@subset RNum Descent rows)).
Proof. exact incomplete_grid_refused. Qed.
Print Assumptions C06_incomplete_grid_refused.

Theorem C06_incomplete_grid_is_refused :
  forall sw rows p, sw_set sw = true -> ~ full_grid (@subset RNum p rows) -> exists e, @load RNum sw rows = Some e.
Proof. exact incomplete_grid_is_refused. Qed.
Print Assumptions C06_incomplete_grid_is_refused.

(* load-time validity + the phase's own mass count give evaluation-time validity of the phase sub-table *)
Theorem C06_phase_valid_of_load :
  forall sw (rows : list (row RNum)) p,
    @load RNum sw rows = None -> @subset RNum p rows <> [] ->
    length (@masses RNum (@subset RNum p rows)) = match p with Descent => 1%nat | _ => 3%nat end ->
    @validate RNum sw (@subset RNum p rows) = None.
Proof. exact phase_valid_of_load. Qed.
Print Assumptions C06_phase_valid_of_load.

(* observation O2: the mass count of a phase is NOT checked at load.  A table whose climb block is a complete grid over
   two masses loads, and its first climb evaluation is rejected with the mass-count error *)
Theorem C06_wrong_phase_mass_count_loads_then_rejects :
  exists rows : list (row RNum),
    @load RNum swF rows = None /\
    @evaluate RNum swF (fun x => x) rows Climb 0 (@MVal RNum 1) = @Rej RNum EMassCount.
Proof. exact (ex_intro _ w_o2 wrong_mass_count_loads_then_rejects). Qed.
Print Assumptions C06_wrong_phase_mass_count_loads_then_rejects.

(* FC06e (known): C06_node_exact_in_metres needs [conv (f * c) = f], true over R for conv = (/ c), false in binary64.
   On the floating-point instance of the same model text, with c = units.FL_TO_METERS as a double: 230 * c / c > 230, and
   a validated table whose top level is 230 rejects the state "level 230 in metres, tabulated mass" as out of bounds. *)
Theorem C06_node_exact_in_metres_binary64_refuted :
  exists (rows : list (row FNum)) (fl m t rc ff : float),
    is_none (@validate FNum swF (@subset FNum Cruise rows)) = true /\
    has_row (@subset FNum Cruise rows) fl m t rc ff = true /\
    PrimFloat.ltb fl (@alt_to_fl_div FNum FLM_f (PrimFloat.mul fl FLM_f)) = true /\
    is_rej_bounds0 (@evaluate FNum swF (@alt_to_fl_div FNum FLM_f) rows Cruise (PrimFloat.mul fl FLM_f) (@MVal FNum m)) = true /\
    is_ok_with (@evaluate FNum swF (fun x => x) rows Cruise fl (@MVal FNum m)) t rc ff = true.
Proof.
  exact (ex_intro _ w_f230 (ex_intro _ 230%float (ex_intro _ 2%float (ex_intro _ 6%float (ex_intro _ 0%float
          (ex_intro _ 5%float node_exact_in_metres_binary64_refuted)))))).
Qed.
Print Assumptions C06_node_exact_in_metres_binary64_refuted.

(* ---- the behaviour before the repairs, kept as documentation of the findings ---- *)

(* FC06b: single-mass values taken in row order *)
Theorem C06_node_exact_row_order_before_fix_refuted :
  exists (rows : list (row RNum)) (r : row RNum),
    @validate RNum (mkSw false true) (@subset RNum Descent rows) = None /\
    In r (@subset RNum Descent rows) /\
    @evaluate RNum (mkSw false true) (fun x => x) rows Descent (r_fl r) (@MVal RNum (r_mass r))
      <> @Ok RNum (r_tas r) (r_rocd r) (r_ff r).
Proof. exact row_order_before_fix_refuted. Qed.
Print Assumptions C06_node_exact_row_order_before_fix_refuted.

(* FC06c: the count-only coverage test *)
Theorem C06_incomplete_grid_refused_before_fix_refuted :
  exists rows : list (row RNum),
    @load RNum (mkSw true false) rows = None /\ ~ full_grid (@subset RNum Cruise rows).
Proof. exact coverage_count_test_before_fix_refuted. Qed.
Print Assumptions C06_incomplete_grid_refused_before_fix_refuted.

(* ---- non-vacuity: a concrete table meeting the hypotheses of the theorems above ---- *)
Example C06_nonvacuous :
  @load RNum swF w_ok = None /\
  (forall p, @validate RNum swF (@subset RNum p w_ok) = None) /\
  @evaluate RNum swF (fun x => x) w_ok Cruise (1 / 2) (@MVal RNum (5 / 2)) = @Ok RNum (11 / 2) 0 (9 / 2) /\
  @evaluate RNum swF (fun x => x) w_ok Cruise 2 (@MVal RNum 2) = @Rej RNum (EBounds 0) /\
  @evaluate RNum swF (fun x => x) w_ok Cruise 1 (@MVal RNum 4) = @Rej RNum (EBounds 1) /\
  @evaluate RNum swF (fun x => x) w_ok Descent 0 (@MVal RNum 400) = @Ok RNum 4 (-1) 1 /\
  @load RNum swF w_dup = Some (ECoverage Cruise) /\
  @evaluate RNum swF (fun x => x) w_desc Descent 1 (@MVal RNum 1) = @Ok RNum 10 (-1) 1.
Proof.
  exact (conj w_ok_loads (conj w_ok_phases_valid (conj w_ok_interior
          (conj (proj1 w_ok_outside) (conj (proj1 (proj2 w_ok_outside)) (conj (proj2 (proj2 w_ok_outside))
          (conj coverage_after_fix row_order_after_fix))))))).
Qed.

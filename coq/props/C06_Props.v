From AV Require Import lib.Num model.C06_Model.

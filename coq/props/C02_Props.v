(* C02 — property theorems only.  Each is closed by [exact] of a lemma from proofs/C02_*.v.

   Reading guide.  [fly perf geo fixed f given it mi tol] is the model of LegacyBuilder.fly
   (coq/model/C02_Model.v); [perf] / [geo] stand for the performance model (C06) and the WGS-84 geodesic
   (C15), quantified universally; [fixed = true] is the hand-over that takes the last stored point (the
   specification, and the code once fixes/F1.diff is applied); [returned ... res] says fly returned [res]
   for a flight with at least two points per phase, for one [call] (weather on/off with the ground-speed oracle
   [gsp] of C16, a starting mass handed in or not, iteration on/off).  Theorems over R; the same text runs at binary64 in the
   correspondence.

   Stated gaps.  (1) "All values are finite" has no theorem: the theorems are over the reals, where every value is a
   number; finiteness of the binary64 run is checked on every returned trajectory by the harness oracle only.
   (2) [valid_oracle] excludes tables with |rocd| >= tas or zero cruise fuel flow: there numpy yields nan / inf (sqrt of
   a negative number, division by zero) where Coq's total functions yield numbers, so the real-number statements
   would not describe the code.  (3) A whole flight satisfying [returned] is exhibited at binary64 (proofs/C02_Main.v:
   time_order_with_last_point_handover, returned_with_mass_iteration, returned_with_given_starting_mass); over R only
   the per-loop examples of proofs/C02_Nonvacuous.v. *)
From Coq Require Import ZArith List Bool Reals.
From AV Require Import lib.Num model.C02_Model proofs.C02_Container proofs.C02_Interp proofs.C02_Builder proofs.C02_Main.
Import ListNotations.
Local Open Scope R_scope.

(* ---- storage/container.py ---- *)
Theorem C02_read_gives_appended_points : forall (A : Type) (d : A) (l : list A), read (appends d l) = l.
Proof. exact read_appends. Qed.
Print Assumptions C02_read_gives_appended_points.

Theorem C02_handover_takes_last_point :
  forall (A : Type) (d : A) (l : list A), l <> [] -> handover d true l = Some (last l d).
Proof. exact handover_takes_last_point. Qed.
Print Assumptions C02_handover_takes_last_point.

Theorem C02_make_point_is_python_indexing_of_the_stored_points :
  forall (A : Type) (d : A) (l : list A) idx, make_point d true (appends d l) idx = py_index A d l idx.
Proof. exact make_point_is_python_index. Qed.
Print Assumptions C02_make_point_is_python_indexing_of_the_stored_points.

(* the finding F1, as the code stands before the fix: 51 appends, make_point(-1) is not the last point *)
Theorem C02_handover_takes_last_point_before_fix_refuted :
  exists l : list Z, l <> [] /\ handover 0%Z false l <> Some (last l 0%Z).
Proof. exact handover_as_coded_refuted. Qed.
Print Assumptions C02_handover_takes_last_point_before_fix_refuted.

(* why the default step hid F1: when the buffer is full both readings of a negative index agree (the converse is not
   claimed; the witness above shows they differ after 51 appends) *)
Theorem C02_as_coded_agrees_when_container_is_full :
  forall (A : Type) (d : A) (c : cont A) idx, c_size c = cap c -> make_point d false c idx = make_point d true c idx.
Proof. exact as_coded_agrees_when_full. Qed.
Print Assumptions C02_as_coded_agrees_when_container_is_full.

(* ... and what it does to a flight (binary64 witness, 80 points per phase): time runs backwards *)
Theorem C02_time_order_before_fix_refuted : exists ts, w_times false = Some ts /\ sorted_f ts = false.
Proof. exact time_order_as_coded_refuted. Qed.
Print Assumptions C02_time_order_before_fix_refuted.

(* ---- builders/base.py, builders/legacy.py, ground_track.py ---- *)
Theorem C02_mass_minus_fuel_constant :
  forall perf geo inside gsp, valid_oracle perf inside -> valid_wind gsp -> forall f c res, returned perf geo gsp f c res ->
  forall q, In q (points (r_traj res)) -> p_mass q - p_fuel q = r_start_mass res - r_total_fuel res.
Proof. exact main_mass_minus_fuel_constant. Qed.
Print Assumptions C02_mass_minus_fuel_constant.

Theorem C02_fuel_and_mass_nonincreasing :
  forall perf geo inside gsp, valid_oracle perf inside -> valid_wind gsp -> forall f c res, returned perf geo gsp f c res ->
  forall i j, (i <= j)%nat -> (j < length (points (r_traj res)))%nat ->
    p_fuel (nth j (points (r_traj res)) pt0) <= p_fuel (nth i (points (r_traj res)) pt0) /\
    p_mass (nth j (points (r_traj res)) pt0) <= p_mass (nth i (points (r_traj res)) pt0).
Proof. exact main_fuel_and_mass_nonincreasing. Qed.
Print Assumptions C02_fuel_and_mass_nonincreasing.

Theorem C02_time_and_distance_nondecreasing :
  forall perf geo inside gsp, valid_oracle perf inside -> valid_wind gsp -> forall f c res, returned perf geo gsp f c res ->
  forall i j, (i <= j)%nat -> (j < length (points (r_traj res)))%nat ->
    p_time (nth i (points (r_traj res)) pt0) <= p_time (nth j (points (r_traj res)) pt0) /\
    p_dist (nth i (points (r_traj res)) pt0) <= p_dist (nth j (points (r_traj res)) pt0).
Proof. exact main_time_and_distance_nondecreasing. Qed.
Print Assumptions C02_time_and_distance_nondecreasing.

Theorem C02_first_point_carries_start :
  forall perf geo inside gsp, valid_oracle perf inside -> valid_wind gsp -> forall f c res, returned perf geo gsp f c res ->
  let q := nth 0 (points (r_traj res)) pt0 in
  p_mass q = r_start_mass res /\ p_fuel q = r_total_fuel res /\ p_time q = 0 /\ p_dist q = 0.
Proof. exact main_first_point_carries_start. Qed.
Print Assumptions C02_first_point_carries_start.

Theorem C02_position_is_track_at_recorded_distance :
  forall perf geo inside gsp, valid_oracle perf inside -> valid_wind gsp -> forall f c res, returned perf geo gsp f c res ->
  Forall (pos_ok geo (origin_of f)) (points (r_traj res)).
Proof. exact main_position_is_track_at_recorded_distance. Qed.
Print Assumptions C02_position_is_track_at_recorded_distance.

Theorem C02_altitude_schedule :
  forall perf geo inside gsp, valid_oracle perf inside -> valid_wind gsp -> forall f c res, returned perf geo gsp f c res ->
  exists s, @schedule RNum (f_o_alt f) (f_d_alt f) (f_max_alt f) = Ok s /\
    ((s_clm s = f_o_alt f + ft3000 /\ f_o_alt f + ft3000 < f_max_alt f) \/
     (s_clm s = f_o_alt f /\ f_max_alt f <= f_o_alt f + ft3000)) /\
    ((s_des_end s = f_d_alt f + ft3000 /\ f_d_alt f + ft3000 < f_max_alt f) \/
     (s_des_end s = f_max_alt f /\ f_max_alt f <= f_d_alt f + ft3000)) /\
    s_crz s <= f_max_alt f /\
    (forall i j, (i <= j)%nat -> (j < f_n_clm f)%nat ->
       let a k := p_alt (nth k (t_climb (r_traj res)) pt0) in
       a i <= a j /\ s_clm s <= a i /\ a j <= s_crz s /\ a 0%nat = s_clm s /\ a (Nat.pred (f_n_clm f)) = s_crz s) /\
    (forall q, In q (t_cruise (r_traj res)) -> p_alt q = s_crz s) /\
    (forall i j, (i <= j)%nat -> (j < f_n_des f)%nat ->
       let a k := p_alt (nth k (t_descent (r_traj res)) pt0) in
       a j <= a i /\ a i <= s_crz s /\ s_des_end s <= a j /\ a 0%nat = s_crz s /\ a (Nat.pred (f_n_des f)) = s_des_end s).
Proof. exact main_altitude_schedule. Qed.
Print Assumptions C02_altitude_schedule.

(* 3000 ft and 7000 ft in metres, as the model (and units.py) computes them *)
Theorem C02_schedule_offsets : ft3000 = 914.4 /\ ft7000 = 2133.6.
Proof. exact (conj ft3000_val ft7000_val). Qed.
Print Assumptions C02_schedule_offsets.

(* unflyable missions are refused, never flown *)
Theorem C02_unflyable_airport_above_ceiling_rejected :
  forall (perf : oracle) (geo : geodesic) fixed gsp wx gfix (f : flight) given it mi tol,
  f_max_alt f < f_o_alt f -> @fly RNum perf geo fixed gsp wx gfix f given it mi tol = Err ESchedule.
Proof. exact main_airport_above_ceiling_refused. Qed.
Print Assumptions C02_unflyable_airport_above_ceiling_rejected.

Theorem C02_unflyable_destination_above_cruise_rejected :
  forall (perf : oracle) (geo : geodesic) fixed gsp wx gfix (f : flight) given it mi tol,
  f_o_alt f + ft3000 <= f_max_alt f - ft7000 -> f_max_alt f - ft7000 < f_d_alt f + ft3000 ->
  @fly RNum perf geo fixed gsp wx gfix f given it mi tol = Err ESchedule.
Proof. exact main_destination_above_cruise_refused. Qed.
Print Assumptions C02_unflyable_destination_above_cruise_rejected.

(* building block: a cruise loop asked to fly a leg of negative length ends in an error.  The statement about returned
   flights is the contrapositive C02_returned_route_is_long_enough below. *)
Theorem C02_negative_cruise_leg_is_refused :
  forall (perf : oracle) (geo : geodesic) (gsp : wind) wx (step total : R) m (p : pt) kp kg,
  step < 0 -> exists e, @crz_loop RNum perf geo gsp wx step total (S m) p kp kg = Err e.
Proof. exact main_negative_cruise_leg_is_refused. Qed.
Print Assumptions C02_negative_cruise_leg_is_refused.

Theorem C02_returned_route_is_long_enough :
  forall perf geo inside gsp, valid_oracle perf inside -> valid_wind gsp -> forall f c res, returned perf geo gsp f c res ->
  exists s, @schedule RNum (f_o_alt f) (f_d_alt f) (f_max_alt f) = Ok s /\
    p_dist (last (t_climb (r_traj res)) pt0) <= f_total f - s_ddist s.
Proof. exact main_route_long_enough. Qed.
Print Assumptions C02_returned_route_is_long_enough.

(* building block: a level-change loop whose first evaluation is refused by the performance model ends in EPerf.  The
   statement about returned flights is C02_returned_points_inside_envelope below. *)
Theorem C02_refused_state_ends_level_change :
  forall (perf : oracle) (geo : geodesic) (gsp : wind) wx rl (lhv start delta total : R) m (idx : R) (p : pt) kp kg,
  perf kp rl (start + idx * delta) (p_mass p) = None ->
  @lc_loop RNum perf geo gsp wx rl lhv start delta total m idx p kp kg = Err EPerf.
Proof. exact main_refused_state_ends_level_change. Qed.
Print Assumptions C02_refused_state_ends_level_change.

Theorem C02_returned_points_inside_envelope :
  forall perf geo inside gsp, valid_oracle perf inside -> valid_wind gsp -> forall f c res, returned perf geo gsp f c res ->
  Forall (fun q : pt => inside Climb (p_alt q) (p_mass q) = true) (t_climb (r_traj res)) /\
  Forall (fun q : pt => inside Cruise (p_alt q) (p_mass q) = true) (t_cruise (r_traj res)) /\
  Forall (fun q : pt => inside Descend (p_alt q) (p_mass q) = true) (t_descent (r_traj res)).
Proof. exact main_returned_points_inside_envelope. Qed.
Print Assumptions C02_returned_points_inside_envelope.

Theorem C02_mass_iteration_tolerance :
  forall perf geo inside gsp, valid_oracle perf inside -> valid_wind gsp -> forall f c res, returned perf geo gsp f c res ->
  c_it c = true -> Rabs (p_fuel (last (points (r_traj res)) pt0) / r_total_fuel res) < c_tol c.
Proof. exact main_mass_iteration_tolerance. Qed.
Print Assumptions C02_mass_iteration_tolerance.

(* a starting mass handed in by the caller (after fixes/FC17a.diff): it is the mass flown *)
Theorem C02_given_starting_mass_is_flown :
  forall perf geo inside gsp, valid_oracle perf inside -> valid_wind gsp -> forall f c res, returned perf geo gsp f c res ->
  forall m, c_given c = Some m -> c_it c = false ->
    r_start_mass res = m /\ p_mass (nth 0 (points (r_traj res)) pt0) = m.
Proof. exact main_given_starting_mass_is_flown. Qed.
Print Assumptions C02_given_starting_mass_is_flown.

(* the finding FC17a as the code stood: with a starting mass handed in, fly never returns a trajectory *)
Theorem C02_given_starting_mass_flies_before_fix_refuted :
  forall (perf : oracle) (geo : geodesic) (gsp : wind) wx (f : flight) (m : R) it mi tol,
  exists e, @fly RNum perf geo true gsp wx false f (Some m) it mi tol = Err e.
Proof. exact main_given_mass_never_flies_before_fix. Qed.
Print Assumptions C02_given_starting_mass_flies_before_fix_refuted.

(* ---- trajectories/trajectory.py: interpolate_time ---- *)
(* On the objects the property talks about: a RETURNED trajectory stores every hand-over point twice, so its time axis
   is weakly increasing only.  For every field g of the points: *)
Theorem C02_returned_times_weakly_increasing :
  forall perf geo inside gsp, valid_oracle perf inside -> valid_wind gsp -> forall f c res, returned perf geo gsp f c res ->
  weakly_increasing (map (@p_time RNum) (points (r_traj res))).
Proof. exact main_times_weakly_increasing. Qed.
Print Assumptions C02_returned_times_weakly_increasing.

Theorem C02_resample_returned_at_own_times :
  forall perf geo inside gsp, valid_oracle perf inside -> valid_wind gsp -> forall f c res, returned perf geo gsp f c res ->
  forall (nan : R) (g : pt -> R) i, (i < length (points (r_traj res)))%nat ->
  let pts := points (r_traj res) in
  exists j, (i <= j)%nat /\ (j < length pts)%nat /\ p_time (nth j pts pt0) = p_time (nth i pts pt0) /\
    (S j = length pts \/ p_time (nth i pts pt0) < p_time (nth (S j) pts pt0)) /\
    @interp RNum nan (map (@p_time RNum) pts) (map g pts) (p_time (nth i pts pt0)) = g (nth j pts pt0).
Proof. exact main_resample_at_stored_time. Qed.
Print Assumptions C02_resample_returned_at_own_times.

Theorem C02_resample_returned_between_is_linear :
  forall perf geo inside gsp, valid_oracle perf inside -> valid_wind gsp -> forall f c res, returned perf geo gsp f c res ->
  forall (nan : R) (g : pt -> R) i x, (S i < length (points (r_traj res)))%nat ->
  let pts := points (r_traj res) in
  p_time (nth i pts pt0) < x < p_time (nth (S i) pts pt0) ->
  @interp RNum nan (map (@p_time RNum) pts) (map g pts) x =
    (g (nth (S i) pts pt0) - g (nth i pts pt0)) / (p_time (nth (S i) pts pt0) - p_time (nth i pts pt0))
    * (x - p_time (nth i pts pt0)) + g (nth i pts pt0).
Proof. exact main_resample_between. Qed.
Print Assumptions C02_resample_returned_between_is_linear.

(* the same for any weakly increasing axis, and the duplicated-time rule on its own *)
Theorem C02_resample_at_stored_time_weak : forall (nan : R) xs ys i,
  length xs = length ys -> weakly_increasing xs -> (i < length xs)%nat ->
  exists j, (i <= j)%nat /\ (j < length xs)%nat /\ nth j xs 0 = nth i xs 0 /\
    (S j = length xs \/ nth i xs 0 < nth (S j) xs 0) /\
    @interp RNum nan xs ys (nth i xs 0) = nth j ys 0.
Proof. exact resample_at_stored_time_weak. Qed.
Print Assumptions C02_resample_at_stored_time_weak.

Theorem C02_resample_between_weak : forall (nan : R) xs ys i x,
  length xs = length ys -> weakly_increasing xs -> (S i < length xs)%nat ->
  nth i xs 0 < x < nth (S i) xs 0 ->
  @interp RNum nan xs ys x =
    (nth (S i) ys 0 - nth i ys 0) / (nth (S i) xs 0 - nth i xs 0) * (x - nth i xs 0) + nth i ys 0.
Proof. exact resample_between_weak. Qed.
Print Assumptions C02_resample_between_weak.

Theorem C02_resample_at_duplicated_time_takes_later_point : forall x0 y0 y1 xs ys,
  @interp_go RNum x0 y0 (x0 :: xs) (y1 :: ys) x0 = @interp_go RNum x0 y1 xs ys x0.
Proof. exact resample_at_duplicated_time_takes_later_point. Qed.
Print Assumptions C02_resample_at_duplicated_time_takes_later_point.

(* special case: strictly increasing axes (no returned trajectory has one; kept for trajectories built otherwise) *)
Theorem C02_resample_at_own_times_id : forall (nan : R) xs ys i,
  length xs = length ys -> strictly_increasing xs -> (i < length xs)%nat ->
  @interp RNum nan xs ys (nth i xs 0) = nth i ys 0.
Proof. exact resample_at_own_times_id. Qed.
Print Assumptions C02_resample_at_own_times_id.

Theorem C02_resample_between_is_linear : forall (nan : R) xs ys i x,
  length xs = length ys -> strictly_increasing xs -> (S i < length xs)%nat ->
  nth i xs 0 < x < nth (S i) xs 0 ->
  @interp RNum nan xs ys x =
    (nth (S i) ys 0 - nth i ys 0) / (nth (S i) xs 0 - nth i xs 0) * (x - nth i xs 0) + nth i ys 0.
Proof. exact resample_between_is_linear. Qed.
Print Assumptions C02_resample_between_is_linear.

Theorem C02_resample_outside_is_nan : forall (nan : R) xs ys x x0 xs',
  xs = x0 :: xs' -> ys <> [] -> (x < x0 \/ last xs x0 < x) -> @interp RNum nan xs ys x = nan.
Proof. exact resample_outside_is_nan. Qed.
Print Assumptions C02_resample_outside_is_nan.

(* non-vacuity: proofs/C02_Interp.v:resample_nonvacuous (a concrete strictly increasing time axis),
   proofs/C02_Container.v:handover_as_coded_witness, proofs/C02_Main.v:time_order_with_last_point_handover
   (a whole flight of 241 points returned by [fly] with sorted times), proofs/C02_Nonvacuous.v (over R: an oracle pair
   satisfying [valid_oracle], an accepted schedule, climb / cruise / descent loops that return points). *)

(* C03 — property theorems only.  Each is closed by [exact] of a lemma from proofs/C03_Proofs.v or
   proofs/C03_Store.v.  [fixed = true] is the repaired writer/reader (fixes/F2.diff); the behaviour of
   the code before the repair is kept as [..._before_fix_refuted] witnesses.  The model is tied to
   trajectories/store.py by running [run_case] inside Coq against real NetCDF stores (harness/c03.py). *)
From Coq Require Import ZArith List String Bool Arith.
From AV Require Import model.C03_Model proofs.C03_Proofs proofs.C03_Store proofs.C03_Files proofs.C03_Facts proofs.C03_Typed.
Import ListNotations.

(* One field, every one of the six dimension shapes and every scalar kind: whatever fits the field
   (fits_typed n L m v: the right shape AND type — integers in the range of the field's integer type, bit
   patterns of binary32/binary64 numbers, strings; arrays of the trajectory's length; species among those of
   the file's species dimension L; no value equal to the NetCDF fill sentinel — exactly the domain the
   generators draw from) is accepted by the writer, and any reader that sees exactly the written cells (and
   fill everywhere else) returns the value in normal form — the species in the order of L, an optional value
   without entries as unset. *)
Theorem C03_roundtrip_field :
  forall n L m v, NoDup L -> fits_typed n L m v ->
  exists ps, field_patches true L m v = inl ps /\
             forall g, reads_patches m ps g -> read_field true L m g = canon L m v.
Proof. exact roundtrip_field_typed. Qed.
Print Assumptions C03_roundtrip_field.

(* Exactly the species that were present: looking any species up in what was read gives what
   looking it up in what was written gives (none lost, none invented, same value). *)
Theorem C03_species_exact :
  forall (A : Type) L (mp : list (nat * A)), NoDup L -> keys_in L mp ->
  forall sp, lookup sp (restrict L mp) = lookup sp mp.
Proof. exact @species_exact. Qed.
Print Assumptions C03_species_exact.

(* None lost: the repaired writer ([field_patches true]) accepts a species-indexed value only if every species
   of it has a place in the file's species dimension and refuses (ValueError) otherwise — and what it accepts
   reads back with exactly its species (C03_species_exact).
   That add(), save() of an in-memory store and create_associated() all reach THIS writer is a fact about
   store.py, not a theorem: it rests on the extractor (translator/c03_extract.py: the unknown-species guard sits
   inside _write_to_nc_var, which is the one writer called from _write_data, reached from _write_trajectory and
   from create_associated) through link/C03_Link.v (`facts = facts_of true`,
   cf_write_refuses_unknown_species) and proofs/C03_Facts.v (field_patches_by_case), and on the correspondence
   (forced species-growth cases on the save() and create_associated paths).  The third theorem below only
   records how the MODEL's three paths are defined (it holds by unfolding). *)
Theorem C03_accepted_species_are_in_dimension :
  forall L m v ps, field_patches true L m v = inl ps ->
  match v with
  | FSp mp => unknown_species L mp = false
  | FSpArr mp => unknown_species L mp = false
  | FSpTm mp => unknown_species L mp = false
  | _ => True
  end.
Proof. exact accepted_species_are_in_dimension. Qed.
Print Assumptions C03_accepted_species_are_in_dimension.

Theorem C03_species_outside_dimension_refused :
  forall L m v,
  match v with
  | FSp mp => fm_shape m = ShTS /\ unknown_species L mp = true
  | FSpArr mp => fm_shape m = ShTSP /\ unknown_species L mp = true
  | FSpTm mp => fm_shape m = ShTSM /\ unknown_species L mp = true
  | _ => False
  end -> field_patches true L m v = inr EValue.
Proof. exact species_outside_dimension_refused. Qed.
Print Assumptions C03_species_outside_dimension_refused.

Theorem C03_every_write_path_is_the_guarded_writer :
  forall fixed sc order r1 i t ts st,
  add_all_c fixed sc order i (t :: ts) st =
    match write_traj_c fixed sc order i t st with
    | inr e => (st, Some (i, e))
    | inl st' => add_all_c fixed sc order (S i) ts st'
    end
  /\ map_all_c fixed sc r1 order i (t :: ts) st =
    match load_traj_c fixed sc r1 i st with
    | inr e => (st, Some (i, e))
    | inl _ => match write_traj_c fixed sc order i t st with
               | inr e => (st, Some (i, e))
               | inl st' => map_all_c fixed sc r1 order (S i) ts st'
               end
    end
  /\ forall fsp p m v c, write_field fixed fsp p m v c =
       match field_patches fixed fsp m v with inl ps => inl (apply_patches p ps c) | inr e => inr e end.
Proof. exact every_write_path_is_the_guarded_writer. Qed.
Print Assumptions C03_every_write_path_is_the_guarded_writer.

(* Unset optional fields come back unset, for every shape; for per-trajectory scalars of every
   numeric kind (strings: see C03_unset_optional_string_reads_empty_refuted). *)
Theorem C03_unset_optional_roundtrip :
  forall L m g, NoDup L -> fm_req m = false -> (fm_shape m = ShT -> fm_dtype m <> Str) ->
  field_patches true L m FNone = inl [] /\
  ((forall s mo, g s mo = fill_cell m) -> read_field true L m g = FNone).
Proof. exact unset_optional_roundtrip. Qed.
Print Assumptions C03_unset_optional_roundtrip.

(* A whole store: any number of trajectories of any lengths, any schema, the field sets written in
   any order [order] and read back in any order [rorder]: every add succeeds and every trajectory
   reads back, field for field, as the normal form of what was added.  Hypotheses: each trajectory
   fits the store (set_fits), carries at least one per-point array (the base field set has fourteen
   required ones), and no species-indexed STRING field is empty in a trajectory before one where it
   is not (no_holes: a netCDF4 limitation, finding F-C03e). *)
Theorem C03_roundtrip_store :
  forall sc order rorder ts st0,
  NoDup order -> incl rorder order -> s_cells st0 = [] ->
  (forall t, In t ts -> exists n, forall fs, In fs order -> set_fits n sc (s_species st0) t fs) ->
  exists st, add_all true sc order 0 ts st0 = (st, None) /\ s_species st = s_species st0 /\
    forall i t, nth_error ts i = Some t ->
      has_array sc rorder t ->
      (forall fs, In fs rorder -> no_holes (s_cells st) fs i 0 (nth fs sc [])) ->
      load_traj true sc rorder i st = inl (map snd (expect sc (s_species st0) rorder t)).
Proof. exact store_roundtrip. Qed.
Print Assumptions C03_roundtrip_store.

(* The normal form is the value itself: with ascending species keys inside an ascending species dimension, and
   unless the value is an optional species-indexed mapping without any species (which is the unset value). *)
Theorem C03_normal_form_is_the_value :
  forall n L m v,
  fits n L m v -> ascending L -> keys_ascending v -> (keys_of v <> [] \/ fm_req m = true) -> canon L m v = v.
Proof. exact canon_identity_nonempty. Qed.
Print Assumptions C03_normal_form_is_the_value.

(* Hence, literally: for typed values in normal form and a schema whose species-indexed fields are not strings
   (F-C03e), every add succeeds and every trajectory reads back as EXACTLY the list of values that was added
   ([written_values]); no_holes is discharged, canon has disappeared. *)
Theorem C03_roundtrip_store_literal :
  forall sc order rorder ts st0,
  NoDup order -> incl rorder order -> s_cells st0 = [] -> species_ascending (s_species st0) ->
  no_string_species_fields sc rorder ->
  (forall t, In t ts -> traj_normal sc rorder t /\
                        exists n, forall fs, In fs order -> set_fits_typed n sc (s_species st0) t fs) ->
  exists st, add_all true sc order 0 ts st0 = (st, None) /\
    forall i t, nth_error ts i = Some t -> has_array sc rorder t ->
      load_traj true sc rorder i st = inl (written_values rorder t).
Proof. exact store_roundtrip_literal. Qed.
Print Assumptions C03_roundtrip_store_literal.

Theorem C03_roundtrip_store_without_string_species_fields :
  forall sc order rorder ts st0,
  NoDup order -> incl rorder order -> s_cells st0 = [] ->
  no_string_species_fields sc rorder ->
  (forall t, In t ts -> exists n, forall fs, In fs order -> set_fits n sc (s_species st0) t fs) ->
  exists st, add_all true sc order 0 ts st0 = (st, None) /\ s_species st = s_species st0 /\
    forall i t, nth_error ts i = Some t -> has_array sc rorder t ->
      load_traj true sc rorder i st = inl (map snd (expect sc (s_species st0) rorder t)).
Proof. exact store_roundtrip_no_string_species. Qed.
Print Assumptions C03_roundtrip_store_without_string_species_fields.

(* The same when part of the field sets is produced afterwards by mapping a function over the store
   (create_associated): a second pass of writes into a further file with its own species dimension. *)
Theorem C03_roundtrip_mapped_store :
  forall sc o1 o2 rorder ts st0 extra,
  NoDup o1 -> NoDup o2 -> (forall fs, In fs o1 -> ~ In fs o2) -> incl rorder (o1 ++ o2) ->
  s_cells st0 = [] ->
  (forall fs, In fs o1 -> lookup fs (s_species st0) <> None) ->
  (forall t, In t ts -> exists n, forall fs, In fs (o1 ++ o2) -> set_fits n sc (s_species st0 ++ extra) t fs) ->
  exists st1 st2,
    add_all true sc o1 0 ts st0 = (st1, None) /\
    add_all true sc o2 0 ts {| s_species := s_species st0 ++ extra; s_cells := s_cells st1 |} = (st2, None) /\
    s_species st2 = s_species st0 ++ extra /\
    forall i t, nth_error ts i = Some t -> has_array sc rorder t ->
      (forall fs, In fs rorder -> no_holes (s_cells st2) fs i 0 (nth fs sc [])) ->
      load_traj true sc rorder i st2 = inl (map snd (expect sc (s_species st0 ++ extra) rorder t)).
Proof. exact store_roundtrip_mapped. Qed.
Print Assumptions C03_roundtrip_mapped_store.

(* Layout independence: the layouts differ (in the model as in the code) only in the species
   dimension the file of a field set gets; the value read back does not depend on it.  The species
   dimension computed from the first trajectory is ascending and contains every species of it. *)
Theorem C03_layout_independent :
  forall n L L' m v,
  fits n L m v -> fits n L' m v -> ascending L -> ascending L' -> keys_ascending v ->
  canon L m v = canon L' m v.
Proof. exact canon_layout_independent. Qed.
Print Assumptions C03_layout_independent.

Theorem C03_species_dimension_ascending : forall sets t, ascending (species_union sets t).
Proof. exact species_union_ascending. Qed.
Print Assumptions C03_species_dimension_ascending.

Theorem C03_species_dimension_complete :
  forall sets t fs j v sp,
  In fs sets -> nth_error (nth fs t []) j = Some v -> In sp (keys_of v) -> In sp (species_union sets t).
Proof. exact species_union_in. Qed.
Print Assumptions C03_species_dimension_complete.

(* The files of a store taken separately — each with its own species dimension and its own variables,
   a field set living in exactly one of them ([run_case], the model the correspondence runs) — behave,
   for EVERY input and for the code before and after the repair alike, as the merged view the theorems
   above are about. *)
Theorem C03_files_read_as_merged :
  forall fixed sc ly worder rorder1 morder rorder ts,
  layout_ok sc ly -> incl rorder1 worder ->
  incl rorder (worder ++ match ly with Mapped _ => morder | _ => [] end) ->
  run_case fixed sc ly worder rorder1 morder rorder ts = run_case_merged fixed sc ly worder rorder1 morder rorder ts.
Proof. exact run_case_eq_merged. Qed.
Print Assumptions C03_files_read_as_merged.

(* Every file has its own (unlimited) trajectory dimension, as long as the largest index written to any of ITS
   variables + 1; reading beyond it is an IndexError ([run_case] models this, [run_case_unbounded] does not).
   Because _write_data writes the trajectory coordinate of the file of every field set it handles, reading
   index i < number of trajectories never runs past the dimension of any file — also of a file in which every
   field was unset at i, e.g. the trailing records of an associated file that holds only optional fields. *)
Theorem C03_reads_stay_within_every_file :
  forall fixed sc ly worder rorder1 morder rorder ts,
  incl rorder1 worder ->
  incl rorder (worder ++ match ly with Mapped _ => morder | _ => [] end) ->
  run_case fixed sc ly worder rorder1 morder rorder ts = run_case_unbounded fixed sc ly worder rorder1 morder rorder ts.
Proof. exact reads_stay_within_every_file. Qed.
Print Assumptions C03_reads_stay_within_every_file.

(* Layout independence on separate files.  (i) Base + one or several associated files written by one CREATE =
   single file, for every schema, split, trajectory list and order, outcome for outcome (errors included). *)
Theorem C03_assoc_reads_as_single_file :
  forall fixed sc a worder rorder1 morder rorder ts,
  layout_ok sc (Assoc a) ->
  run_case_unbounded fixed sc (Assoc a) worder rorder1 morder rorder ts
  = run_case_unbounded fixed sc Single worder rorder1 morder rorder ts.
Proof. exact assoc_reads_as_single. Qed.
Print Assumptions C03_assoc_reads_as_single_file.

Theorem C03_many_assoc_files_read_as_single_file :
  forall fixed sc parts worder rorder1 morder rorder ts,
  layout_ok sc (AssocMany parts) ->
  run_case_unbounded fixed sc (AssocMany parts) worder rorder1 morder rorder ts
  = run_case_unbounded fixed sc Single worder rorder1 morder rorder ts.
Proof. exact assoc_many_reads_as_single. Qed.
Print Assumptions C03_many_assoc_files_read_as_single_file.

(* (ii) A store whose field sets [a] are produced afterwards by create_associated — a second file whose
   species dimension (that of the mapped results) in general differs from the base file's — reads back,
   trajectory for trajectory, exactly what the store holding everything in one file reads back; every
   add succeeds in both.  (A reader that used one species list for all files of a store is excluded:
   each file is decoded with its own.) *)
Theorem C03_mapped_reads_as_single_file :
  forall sc a t0 rest o1 o2 wS rorder,
  let ts := t0 :: rest in
  NoDup a -> incl a (all_sets sc) ->
  NoDup o1 -> NoDup o2 -> incl o1 (minus (all_sets sc) a) -> incl o2 a ->
  NoDup wS -> incl wS (all_sets sc) -> incl rorder (o1 ++ o2) -> incl rorder wS ->
  no_string_species_fields sc rorder ->
  (forall t, In t ts -> traj_keys_ascending t /\
     exists n, (forall fs, In fs (o1 ++ o2) -> set_fits n sc (mapped_species sc a t0) t fs) /\
               (forall fs, In fs wS -> set_fits n sc (single_species sc t0) t fs)) ->
  exists cS cM1 cM,
    add_all_c true sc wS 0 ts (create_files sc Single t0) = (cS, None) /\
    add_all_c true sc o1 0 ts (create_files sc (Mapped a) t0) = (cM1, None) /\
    add_all_c true sc o2 0 ts (add_mapped_file_c a t0 cM1) = (cM, None) /\
    forall i t, nth_error ts i = Some t -> has_array sc rorder t ->
      load_traj_c true sc rorder i cM = load_traj_c true sc rorder i cS /\
      load_traj_c true sc rorder i cS = inl (map snd (expect sc (single_species sc t0) rorder t)).
Proof. exact mapped_reads_as_single. Qed.
Print Assumptions C03_mapped_reads_as_single_file.

(* with ascending keys inside an ascending species dimension the normal form is the value itself *)
Theorem C03_normal_form_is_identity :
  forall (A : Type) L (mp : list (nat * A)),
  ascending L -> ascending (map fst mp) -> (forall k, In k (map fst mp) -> In k L) -> restrict L mp = mp.
Proof. exact @restrict_sorted. Qed.
Print Assumptions C03_normal_form_is_identity.

(* ---- the findings, as theorems about the faithful model of the code before the repair (F2, F-C03d) ---- *)
Theorem C03_species_roundtrip_before_fix_refuted :
  run_case false (fst gap_case) Single [0; 1] [] [] [0; 1] (snd gap_case) = Refused 1 0 EIndexBound.
Proof. exact species_roundtrip_before_fix. Qed.
Print Assumptions C03_species_roundtrip_before_fix_refuted.

Theorem C03_species_invented_before_fix_refuted :
  run_case false (fst differing_case) Single [0; 1] [] [] [0; 1] (snd differing_case)
  = Added [inl [pts; FSp [(0, one); (1, fill_of F64)]; FSp [(0, fill_of F64); (1, two)]]].
Proof. exact species_invented_before_fix. Qed.
Print Assumptions C03_species_invented_before_fix_refuted.

Theorem C03_unset_thrust_mode_before_fix_refuted :
  run_case false [[tp_req]; [tm_opt]] Single [0; 1] [] [] [0; 1] [[[pts]; [FNone]]]
  = Added [inl [pts; FTm [fill_of F64; fill_of F64; fill_of F64; fill_of F64]]].
Proof. exact unset_thrust_mode_before_fix. Qed.
Print Assumptions C03_unset_thrust_mode_before_fix_refuted.

(* ---- what stays open after the repair (F-C03a, F-C03b) ---- *)
Theorem C03_unset_optional_string_reads_empty_refuted :
  run_case true [[tp_req]; [str_opt]] Single [0; 1] [] [] [0; 1] [[[pts]; [FNone]]]
  = Added [inl [pts; FScal (VStr "")]].
Proof. exact unset_optional_string_reads_empty. Qed.
Print Assumptions C03_unset_optional_string_reads_empty_refuted.

Theorem C03_zero_length_unreadable_refuted :
  run_case true [[tp_req]] Single [0] [] [] [0] [[[FArr (Arr 0 0)]]] = Added [inr EAssert].
Proof. exact zero_length_unreadable. Qed.
Print Assumptions C03_zero_length_unreadable_refuted.

(* ---- non-vacuity: the same witnesses with the repaired code, and three layouts of one store ---- *)
Example C03_nonvacuous_gap :
  run_case true (fst gap_case) Single [0; 1] [] [] [0; 1] (snd gap_case)
  = Added [inl [pts; FSp [(0, one); (4, two)]]].
Proof. exact species_roundtrip_after_fix. Qed.

Example C03_nonvacuous_differing :
  run_case true (fst differing_case) Single [0; 1] [] [] [0; 1] (snd differing_case)
  = Added [inl [pts; FSp [(0, one)]; FSp [(1, two)]]].
Proof. exact species_invented_after_fix. Qed.

Example C03_nonvacuous_layouts :
  let sc := fst layouts_case in let ts := snd layouts_case in
  let r := run_case true sc Single [0; 1; 2] [] [] [0; 1; 2] ts in
  r = run_case true sc (Assoc [2]) [0; 1; 2] [] [] [0; 1; 2] ts /\
  r = run_case true sc (Mapped [2]) [0; 1] [0; 1] [2] [0; 1; 2] ts /\
  r = Added [inl [pts; FSp [(2, one); (9, two)]; FNone; FSp [(9, one)]];
             inl [pts; FSp [(9, two)]; FTm [one; two; one; two]; FSp []]].
Proof. exact layouts_agree. Qed.

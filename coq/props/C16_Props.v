(* C16 — property theorems only.  Each is closed by [exact] of a lemma from proofs/C16_Proofs.v.
   [gs false] is the SPECIFICATION (east = tas sin h, north = tas cos h, h degrees clockwise from
   north, wind = (eastward, northward)); [gs true] is weather.py:get_ground_speed AS CODED (F14).
   Real-number semantics of the model text (lib/Num.v, RNum). *)
From Coq Require Import ZArith Reals List Bool Lra.
From AV Require Import lib.Num model.C16_Model proofs.C16_Proofs.
Import ListNotations.
Local Open Scope R_scope.

(* ---------------- the specification ---------------- *)

Theorem C16_no_wind_gives_tas :
  forall tas h, 0 <= tas -> @gs RNum false tas h 0 0 = tas.
Proof. exact (no_wind_gives_tas false). Qed.
Print Assumptions C16_no_wind_gives_tas.

(* a wind of speed W blowing along the heading (pure tailwind) adds its full speed *)
Theorem C16_tailwind_adds :
  forall tas W h, 0 <= tas -> 0 <= W ->
    @gs RNum false tas h (W * sin (@deg2rad RNum h)) (W * cos (@deg2rad RNum h)) = tas + W.
Proof. exact tailwind_adds. Qed.
Print Assumptions C16_tailwind_adds.

(* a wind of speed W blowing against the heading (pure headwind) subtracts its full speed *)
Theorem C16_headwind_subtracts :
  forall tas W h,
    @gs RNum false tas h (- (W * sin (@deg2rad RNum h))) (- (W * cos (@deg2rad RNum h))) = Rabs (tas - W).
Proof. exact headwind_subtracts. Qed.
Print Assumptions C16_headwind_subtracts.

(* heading and wind rotated together (clockwise by d degrees): unchanged *)
Theorem C16_rotation_invariant :
  forall tas h d u v,
    @gs RNum false tas (h + d) (fst (@rot_cw RNum (@deg2rad RNum d) u v)) (snd (@rot_cw RNum (@deg2rad RNum d) u v))
    = @gs RNum false tas h u v.
Proof. exact rotation_invariant. Qed.
Print Assumptions C16_rotation_invariant.

Theorem C16_triangle_bounds :
  forall tas h u v, 0 <= tas ->
    Rabs (tas - sqrt (u * u + v * v)) <= @gs RNum false tas h u v <= tas + sqrt (u * u + v * v).
Proof. exact (triangle_bounds false). Qed.
Print Assumptions C16_triangle_bounds.

(* a point outside the pressure-level / latitude / longitude range of the data is never answered
   (for either reading of the heading) *)
Theorem C16_outside_domain_refused :
  forall b (sc : scene RNum) slice (alt lat lon tas h : R),
    out_of (sc_levels sc) (@level RNum alt) \/ out_of (sc_lats sc) lat \/ out_of (sc_lons sc) lon ->
    forall x, @ground_speed RNum b sc slice alt lat lon tas h <> @GsOk RNum x.
Proof. exact outside_domain_refused. Qed.
Print Assumptions C16_outside_domain_refused.

Example C16_outside_domain_nonvacuous : out_of [225; 400; 700; 1000] 1013.25.
Proof. exact out_of_nonvacuous. Qed.

(* and a request inside the axis range does find its cell (no spurious refusal) *)
Theorem C16_inside_axis_is_bracketed :
  forall xs a q, xs <> [] -> a <= q -> q <= last xs a ->
    exists i x0 x1, @bracket RNum (a :: xs) q = Some (i, x0, x1).
Proof. exact bracket_inside. Qed.
Print Assumptions C16_inside_axis_is_bracketed.

(* on a uniform wind field the whole query (pressure level, trilinear interpolation, vector sum)
   is the vector formula at that wind — this carries the clauses above to whole queries *)
Theorem C16_uniform_field_query :
  forall b (sc : scene RNum) slice (alt lat lon tas h : R) tu tv cu cv (x : R),
    nth_error (sc_u sc) slice = Some tu -> nth_error (sc_v sc) slice = Some tv ->
    uniform tu cu -> uniform tv cv ->
    @ground_speed RNum b sc slice alt lat lon tas h = @GsOk RNum x -> x = @gs RNum b tas h cu cv.
Proof. exact uniform_field_pipeline. Qed.
Print Assumptions C16_uniform_field_query.

(* ---------------- whole queries on arbitrary (spatially varying) fields ---------------- *)

(* an answered query IS the vector formula at the interpolated wind (so every clause above applies to it) *)
Theorem C16_answered_query_is_vector_sum_at_interpolated_wind :
  forall b (sc : scene RNum) slice (alt lat lon tas h x : R),
    @ground_speed RNum b sc slice alt lat lon tas h = @GsOk RNum x ->
    exists u v, @wind RNum sc slice alt lat lon = Some (u, v) /\ x = @gs RNum b tas h u v.
Proof. exact ground_speed_unfold. Qed.
Print Assumptions C16_answered_query_is_vector_sum_at_interpolated_wind.

(* what "interpolated" means for a varying field: each interpolated component lies within the range of the grid values
   (convex-hull bound of the nested linear interpolation; together with C16_uniform_field_query: exact on uniform fields) *)
Theorem C16_interpolated_wind_within_grid_values :
  forall ps las los tb (p la lo_ lo hi w : R),
    (forall i j k y, @node RNum tb i j k = Some y -> lo <= y <= hi) ->
    @interp3 RNum ps las los tb p la lo_ = Some w -> lo <= w <= hi.
Proof. exact interp3_between. Qed.
Print Assumptions C16_interpolated_wind_within_grid_values.

(* liveness: a query below 25 km whose pressure level, latitude and longitude lie inside their (closed) axis ranges, on
   rectangular tables, IS answered *)
Theorem C16_inside_domain_answered :
  forall b (sc : scene RNum) slice (alt lat lon tas h : R) tu tv,
    alt <= 25000 ->
    nth_error (sc_u sc) slice = Some tu -> nth_error (sc_v sc) slice = Some tv ->
    rect tu (length (sc_levels sc)) (length (sc_lats sc)) (length (sc_lons sc)) ->
    rect tv (length (sc_levels sc)) (length (sc_lats sc)) (length (sc_lons sc)) ->
    inside (sc_levels sc) (@level RNum alt) -> inside (sc_lats sc) lat -> inside (sc_lons sc) lon ->
    exists x, @ground_speed RNum b sc slice alt lat lon tas h = @GsOk RNum x.
Proof. exact ground_speed_live. Qed.
Print Assumptions C16_inside_domain_answered.

Example C16_inside_nonvacuous : inside [225; 400; 700; 1000] 500 /\ inside [40; 41] 41.
Proof. split; simpl; (split; [discriminate|lra]). Qed.

(* ---------------- the code as it stands (F14) ---------------- *)

(* h = 0 (due north), wind (0, 4) (blowing due north), tas = 3: specified 7, coded 5 *)
Theorem C16_tailwind_adds_refuted :
  exists tas W h, 0 <= tas /\ 0 <= W /\
    @gs RNum true tas h (W * sin (@deg2rad RNum h)) (W * cos (@deg2rad RNum h)) <> tas + W.
Proof. exact tailwind_adds_refuted. Qed.
Print Assumptions C16_tailwind_adds_refuted.

Theorem C16_headwind_subtracts_refuted :
  exists tas W h,
    @gs RNum true tas h (- (W * sin (@deg2rad RNum h))) (- (W * cos (@deg2rad RNum h))) <> Rabs (tas - W).
Proof. exact headwind_subtracts_refuted. Qed.
Print Assumptions C16_headwind_subtracts_refuted.

Theorem C16_rotation_invariant_refuted :
  exists tas th ph u v,
    @gs_rad RNum true tas (th + ph) (fst (@rot_cw RNum ph u v)) (snd (@rot_cw RNum ph u v))
    <> @gs_rad RNum true tas th u v.
Proof. exact impl_rotation_refuted. Qed.
Print Assumptions C16_rotation_invariant_refuted.

(* the exact shape of the defect: the code is the specification with the wind components exchanged
   (equivalently: heading read counter-clockwise from east) *)
Theorem C16_impl_is_spec_with_wind_components_exchanged :
  forall tas th u v, @gs_rad RNum true tas th u v = @gs_rad RNum false tas th v u.
Proof. exact impl_is_spec_wind_exchanged. Qed.
Print Assumptions C16_impl_is_spec_with_wind_components_exchanged.

Theorem C16_impl_is_spec_at_mirrored_heading :
  forall tas th u v, @gs_rad RNum true tas th u v = @gs_rad RNum false tas (PI / 2 - th) u v.
Proof. exact impl_is_spec_mirrored_heading. Qed.
Print Assumptions C16_impl_is_spec_at_mirrored_heading.

(* what survives for the code as it stands *)
Theorem C16_impl_no_wind_gives_tas :
  forall tas h, 0 <= tas -> @gs RNum true tas h 0 0 = tas.
Proof. exact (no_wind_gives_tas true). Qed.
Print Assumptions C16_impl_no_wind_gives_tas.

Theorem C16_impl_triangle_bounds :
  forall tas h u v, 0 <= tas ->
    Rabs (tas - sqrt (u * u + v * v)) <= @gs RNum true tas h u v <= tas + sqrt (u * u + v * v).
Proof. exact (triangle_bounds true). Qed.
Print Assumptions C16_impl_triangle_bounds.

(* C17 — property theorems only.  Each is closed by [exact] of a lemma from proofs/C17_Proofs.v.

   [fly ctor calc iter_once small adjust guarded gfix b m] is the model of Builder.fly (coq/model/C17_Model.v).
   The flight physics are universally quantified oracles that see the builder only through attribute reads;
   [guarded] says whether the finally clause deletes the context only if it exists (true: specification and the
   code after fixes/F15.diff; false: the code as it stands).  [reads_only ... reads] is the hypothesis that the
   flight code reads the builder through the names in [reads] only, that "current_mass" is not one of them and
   the two mass attributes are (the lists are re-extracted from base.py / legacy.py on every run,
   link/C17_Link.v).

   What the types assume.  The oracles are functions of the options, the mission and the attribute view of the builder:
   everything else they depend on in the code (the performance-model object, the configuration singleton, the airports
   table, the weather files, module-level state) is taken to be the same for equal arguments, i.e. pure and unchanged
   between flights.  That is not proved; the extractor refuses module- and class-level state in the builder modules and
   the harness compares every sequence with fresh builders and a fresh interpreter.  The context constructor receives the
   builder (`builder=self`); it is given the view and [reads_only] requires that it, too, depends on it through [reads]
   only (link/C17_Link.v: it reads `options` and nothing a flight writes). *)
From Coq Require Import ZArith List String Bool.
From AV Require Import model.C17_Model proofs.C17_Proofs.
Import ListNotations.
Open Scope string_scope.

(* for ALL histories of successful and failing flights, fly after the history = fly on a fresh builder, and the
   builder is idle afterwards (initial options, no context, nothing readable left behind) *)
Theorem C17_fly_history_independent : forall ctor calc iter_once small adjust reads,
  reads_only ctor calc iter_once adjust reads ->
  forall guarded gfix o ms m,
    let b := fst (run ctor calc iter_once small adjust guarded gfix (fresh o) ms) in
    snd (fly ctor calc iter_once small adjust guarded gfix b m) = snd (fly ctor calc iter_once small adjust guarded gfix (fresh o) m) /\
    idle reads o (fst (fly ctor calc iter_once small adjust guarded gfix b m)).
Proof. exact main_fly_history_independent. Qed.
Print Assumptions C17_fly_history_independent.

Theorem C17_history_is_fresh_flights : forall ctor calc iter_once small adjust reads,
  reads_only ctor calc iter_once adjust reads ->
  forall guarded gfix o ms,
    snd (run ctor calc iter_once small adjust guarded gfix (fresh o) ms) =
    map (fun m => snd (fly ctor calc iter_once small adjust guarded gfix (fresh o) m)) ms.
Proof. exact main_history_is_fresh_flights. Qed.
Print Assumptions C17_history_is_fresh_flights.

(* ... and for histories in which the caller also replaces the builder's options between flights *)
Theorem C17_ops_history_independent : forall ctor calc iter_once small adjust reads,
  reads_only ctor calc iter_once adjust reads ->
  forall guarded gfix o0 ops m,
    let b := fst (run_ops ctor calc iter_once small adjust guarded gfix (fresh o0) ops) in
    snd (fly ctor calc iter_once small adjust guarded gfix b m)
      = snd (fly ctor calc iter_once small adjust guarded gfix (fresh (b_opts b)) m) /\
    idle reads (b_opts b) (fst (fly ctor calc iter_once small adjust guarded gfix b m)).
Proof. exact main_ops_history_independent. Qed.
Print Assumptions C17_ops_history_independent.

Theorem C17_no_context_left_behind : forall ctor calc iter_once small adjust gfix guarded b m,
  b_ctx (fst (fly ctor calc iter_once small adjust guarded gfix b m)) = None.
Proof. exact fly_ctx_none. Qed.
Print Assumptions C17_no_context_left_behind.

Theorem C17_failed_flight_leaves_builder_usable : forall ctor calc iter_once small adjust reads,
  reads_only ctor calc iter_once adjust reads ->
  forall guarded gfix o bad m,
    let b := fst (fly ctor calc iter_once small adjust guarded gfix (fresh o) bad) in
    b_ctx b = None /\ b_opts b = o /\
    snd (fly ctor calc iter_once small adjust guarded gfix b m) = snd (fly ctor calc iter_once small adjust guarded gfix (fresh o) m).
Proof. exact main_failed_flight_leaves_builder_usable. Qed.
Print Assumptions C17_failed_flight_leaves_builder_usable.

(* the original reason surfaces (guarded finally) *)
Theorem C17_original_error_surfaces : forall ctor calc iter_once small adjust gfix b m r,
  ctor (b_opts b) (view b) m = inr r -> snd (fly ctor calc iter_once small adjust true gfix b m) = Raised (Reason r).
Proof. exact original_error_surfaces_ctor. Qed.
Print Assumptions C17_original_error_surfaces.

Theorem C17_never_an_unrelated_internal_error : forall ctor calc iter_once small adjust gfix b m,
  snd (fly ctor calc iter_once small adjust true gfix b m) <> Raised AttrCtx.
Proof. exact guarded_never_raises_internal_error. Qed.
Print Assumptions C17_never_an_unrelated_internal_error.

(* the finding F15: as coded (unguarded `del self.ctx`) every constructor failure on an idle builder is masked *)
Theorem C17_context_ctor_error_masked_before_fix : forall ctor calc iter_once small adjust gfix b m r,
  b_ctx b = None -> ctor (b_opts b) (view b) m = inr r -> snd (fly ctor calc iter_once small adjust false gfix b m) = Raised AttrCtx.
Proof. exact ctor_error_masked_as_coded. Qed.
Print Assumptions C17_context_ctor_error_masked_before_fix.

Theorem C17_original_error_surfaces_before_fix_refuted :
  exists m, w_ctor w_opts (view (fresh w_opts)) m = inr 7%Z /\
    snd (fly w_ctor w_calc w_iter w_small w_adjust false true (fresh w_opts) m) <> Raised (Reason 7%Z) /\
    snd (fly w_ctor w_calc w_iter w_small w_adjust false true (fresh w_opts) m) = Raised AttrCtx /\
    snd (fly w_ctor w_calc w_iter w_small w_adjust true true (fresh w_opts) m) = Raised (Reason 7%Z).
Proof. exact context_ctor_error_masked_refuted. Qed.
Print Assumptions C17_original_error_surfaces_before_fix_refuted.

(* a starting mass handed in by the caller: with the fuel load derived either way (fixes/FC17a.diff) it is defined
   before the first iteration and the mass handed in is the one used *)
Theorem C17_fuel_load_defined_before_first_iteration : forall calc o own c given sm tf,
  lookup "starting_mass" own = None -> lookup "total_fuel_mass" own = None ->
  let e := mkb o own (Some (ctx_of c given)) in
  calc o (view e) = inl (sm, tf) ->
  exists d, prepare calc true e = inl d /\
    getattr d "total_fuel_mass" = Some (Some tf) /\
    getattr d "starting_mass" = Some (Some (match given with Some m => m | None => sm end)).
Proof. exact fuel_load_defined_before_first_iteration. Qed.
Print Assumptions C17_fuel_load_defined_before_first_iteration.

(* the finding FC17a as the code stood: the fuel load is still None when the first iteration starts *)
Theorem C17_fuel_load_defined_before_fix_refuted : forall calc o own c m,
  lookup "starting_mass" own = None -> lookup "total_fuel_mass" own = None ->
  let e := mkb o own (Some (ctx_of c (Some m))) in
  prepare calc false e = inl e /\ getattr e "total_fuel_mass" = Some None.
Proof. exact given_mass_fuel_load_undefined_before_fix. Qed.
Print Assumptions C17_fuel_load_defined_before_fix_refuted.

(* a refusal of calc_starting_mass itself (cruise level outside the table) is the reason reported *)
Theorem C17_calc_refusal_surfaces : forall calc iter_once small adjust gfix b e,
  prepare calc gfix b = inr e -> body calc iter_once small adjust gfix b = (b, Raised (Reason e)).
Proof. exact calc_refusal_surfaces. Qed.
Print Assumptions C17_calc_refusal_surfaces.

(* a refusal by calc_starting_mass or by a flight iteration is the exception fly raises; and every reason fly raises is
   one of: not-implemented, non-convergence, or a reason one of the oracles gave *)
Theorem C17_calc_refusal_surfaces_from_fly : forall ctor calc iter_once small adjust gfix g b m c e,
  ctor (b_opts b) (view b) m = inl c ->
  prepare calc gfix (mkb (b_opts b) (b_own b) (Some (flight_ctx c m))) = inr e ->
  snd (fly ctor calc iter_once small adjust g gfix b m) = Raised (Reason e).
Proof. exact fly_calc_refusal_surfaces. Qed.
Print Assumptions C17_calc_refusal_surfaces_from_fly.

Theorem C17_iteration_refusal_surfaces_from_fly : forall ctor calc iter_once small adjust gfix g b m c d e,
  ctor (b_opts b) (view b) m = inl c ->
  prepare calc gfix (mkb (b_opts b) (b_own b) (Some (flight_ctx c m))) = inl d ->
  o_optimize (b_opts d) = false -> snd (fly_iteration iter_once d) = inr e ->
  snd (fly ctor calc iter_once small adjust g gfix b m) = Raised (Reason e).
Proof. exact fly_first_iteration_refusal_surfaces. Qed.
Print Assumptions C17_iteration_refusal_surfaces_from_fly.

Theorem C17_every_reason_is_an_original_one : forall ctor calc iter_once small adjust gfix g b m e,
  snd (fly ctor calc iter_once small adjust g gfix b m) = Raised (Reason e) ->
  e = NOT_IMPLEMENTED \/ e = NO_CONVERGENCE \/ (exists v, ctor (b_opts b) v m = inr e) \/
  (exists o v, calc o v = inr e) \/ (exists b0, snd (fly_iteration iter_once b0) = inr e).
Proof. exact fly_later_iteration_refusal_surfaces. Qed.
Print Assumptions C17_every_reason_is_an_original_one.

(* with iteration enabled, the trajectory fly returns is the result of one of this flight's iterations whose residual
   passed the tolerance test *)
Theorem C17_fly_returns_converged : forall ctor calc iter_once small adjust gfix g b m t sm tf,
  b_ctx b = None -> snd (fly ctor calc iter_once small adjust g gfix b m) = Flown t sm tf ->
  exists d r, snd (fly_iteration iter_once d) = inl (t, r) /\ (o_iterate (b_opts b) = true -> small (b_opts b) r = true).
Proof. exact fly_returns_converged. Qed.
Print Assumptions C17_fly_returns_converged.

(* mass iteration: a trajectory only with a residual that passed the tolerance test, otherwise an error *)
Theorem C17_mass_iteration_tolerance_or_error : forall iter_once small adjust k b t r,
  match iterate iter_once small adjust k b t r with
  | (b', inl t') => exists r', small (b_opts b') r' = true /\
                      ((t', r') = (t, r) \/ exists b0, snd (fly_iteration iter_once b0) = inl (t', r'))
  | (b', inr e) => e = NO_CONVERGENCE \/ exists b0, snd (fly_iteration iter_once b0) = inr e
  end.
Proof. exact main_mass_iteration_tolerance_or_error. Qed.
Print Assumptions C17_mass_iteration_tolerance_or_error.

Theorem C17_out_of_iterations_is_error : forall iter_once small adjust b t r,
  iterate iter_once small adjust 0 b t r = (b, inr NO_CONVERGENCE).
Proof. exact main_out_of_iterations_is_error. Qed.
Print Assumptions C17_out_of_iterations_is_error.

(* non-vacuity: proofs/C17_Proofs.v:history_nonvacuous — a history with a constructor failure and a failure in
   the second mass iteration, followed by a successful flight, under both readings of the finally clause. *)

(* C05 — gridded pieces land in the cells the path actually crosses.  Property theorems only.
   Real-number semantics of coq/model/C04_Model.v.  Cells are closed: cell c of an axis with lines g is
   [g[c], g[c+1]]; [inside g x] means g[0] < x <= g[last]; [okx clamp g x] = inside g x, or — when the index is
   clamped (clamp = true, the repaired code) — anywhere in the closed range g[0] <= x <= g[last].  So with the
   clamp the theorems cover points exactly on the lowest line: the point inserted at longitude -pi by the
   antimeridian split on a global grid, a pole on a grid starting at -pi/2, altitude 0. *)
From Coq Require Import ZArith List Bool Reals Lra Lia.
From AV Require Import lib.Num lib.FloatMath model.C04_Model proofs.C04_Proofs proofs.C05_Sorting proofs.C05_Cells proofs.C05_Proofs proofs.C05_Witness64.
Import ListNotations.
Local Open Scope R_scope.

(* piece_in_attributed_cell — FULL generality (segments crossing lines of both families, points on lines and
   corners, either direction, either value of the F20 switch): both end points of every piece lie in the closed
   latitude cell and in the closed longitude cell the piece is attributed to. *)
Theorem C05_piece_in_attributed_cell :
  forall clamp (glat glon : list R) (lat0 lon0 lat1 lon1 : R),
    incr glat -> incr glon ->
    okx clamp glat lat0 -> okx clamp glat lat1 -> okx clamp glon lon0 -> okx clamp glon lon1 ->
    @seg_geometry RNum clamp glat glon (lat0, lon0) (lat1, lon1)
      = (cells clamp glat glon lat0 lon0 lat1 lon1, chain clamp glat glon lat0 lon0 lat1 lon1) /\
    Forall2 (piece_in_cell glat glon)
            (cells clamp glat glon lat0 lon0 lat1 lon1)
            (pairs (chain clamp glat glon lat0 lon0 lat1 lon1)).
Proof. intros. split; [apply seg_geometry_unfold|apply pieces_in_cells; assumption]. Qed.
Print Assumptions C05_piece_in_attributed_cell.

(* the hypotheses are satisfiable by a segment that crosses two latitude lines and one longitude line *)
Example C05_piece_in_attributed_cell_nonvacuous :
  incr [0; 1; 2; 3] /\ inside [0; 1; 2; 3] (/2) /\ inside [0; 1; 2; 3] (5/2) /\ inside [0; 1; 2; 3] 2 /\
  @cell_index RNum false [0; 1; 2; 3] (/2) = 0%Z /\ @cell_index RNum false [0; 1; 2; 3] (5/2) = 2%Z /\
  @cell_index RNum false [0; 1; 2; 3] 2 = 1%Z.
Proof.
  repeat split; try (repeat constructor; lra); try (unfold gn, glen; simpl; lra);
    unfold cell_index, ss_left; cbn [ltb RNum]; rdec; reflexivity.
Qed.

(* cells_in_path_order: along the chain of a segment latitude and longitude never go back, and the segments
   themselves are processed in trajectory order (part_geometry is a [map] over consecutive point pairs) *)
Theorem C05_cells_in_path_order :
  forall clamp (glat glon : list R) (lat0 lon0 lat1 lon1 : R),
    incr glat -> incr glon ->
    okx clamp glat lat0 -> okx clamp glat lat1 -> okx clamp glon lon0 -> okx clamp glon lon1 ->
    mono (map fst (chain clamp glat glon lat0 lon0 lat1 lon1)) /\
    mono (map snd (chain clamp glat glon lat0 lon0 lat1 lon1)).
Proof. exact chain_monotone. Qed.
Print Assumptions C05_cells_in_path_order.

(* the chain points (sorted latitudes paired with sorted longitudes) ARE points of the segment's straight map
   line — general position included (an increasing line keeps the sorting direction, a decreasing one flips it) *)
Theorem C05_chain_points_on_segment :
  forall clamp (glat glon : list R) (lat0 lon0 lat1 lon1 : R),
    incr glat -> incr glon ->
    okx clamp glat lat0 -> okx clamp glat lat1 -> okx clamp glon lon0 -> okx clamp glon lon1 ->
    Forall (on_line lat0 lon0 lat1 lon1) (chain clamp glat glon lat0 lon0 lat1 lon1).
Proof. exact chain_points_on_line. Qed.
Print Assumptions C05_chain_points_on_segment.

(* untouched_cells_get_nothing: every reported cell contains, in its closed rectangle, a point of the segment
   itself (on the straight map line, between the end points); a cell the path does not touch is never listed *)
Theorem C05_untouched_cells_get_nothing :
  forall clamp (glat glon : list R) (lat0 lon0 lat1 lon1 : R),
    incr glat -> incr glon ->
    okx clamp glat lat0 -> okx clamp glat lat1 -> okx clamp glon lon0 -> okx clamp glon lon1 ->
    forall c, In c (cells clamp glat glon lat0 lon0 lat1 lon1) ->
    exists p, on_line lat0 lon0 lat1 lon1 p /\
              Rmin lat0 lat1 <= fst p <= Rmax lat0 lat1 /\ Rmin lon0 lon1 <= snd p <= Rmax lon0 lon1 /\
              in_cell glat (fst c) (fst p) /\ in_cell glon (snd c) (snd p).
Proof. exact reported_cell_touches_segment. Qed.
Print Assumptions C05_untouched_cells_get_nothing.

Theorem C05_reported_cell_holds_a_piece :
  forall clamp (glat glon : list R) (lat0 lon0 lat1 lon1 : R) c,
    incr glat -> incr glon ->
    okx clamp glat lat0 -> okx clamp glat lat1 -> okx clamp glon lon0 -> okx clamp glon lon1 ->
    In c (cells clamp glat glon lat0 lon0 lat1 lon1) ->
    exists ab, In ab (pairs (chain clamp glat glon lat0 lon0 lat1 lon1)) /\ piece_in_cell glat glon c ab.
Proof. intros. apply reported_cell_holds_a_piece; assumption. Qed.
Print Assumptions C05_reported_cell_holds_a_piece.

(* share = length share (non-degenerate segment): the fraction of piece d of a segment of length D is d / D *)
Theorem C05_share_is_length_share :
  forall fix3 cnt (D d : R), D <> 0 -> @frac RNum fix3 cnt D d = d / D.
Proof. exact frac_nonzero. Qed.
Print Assumptions C05_share_is_length_share.

(* lengths_match: cells, altitude cells, time cells, every state variable (and below every integrated
   variable) have the same number of entries *)
Theorem C05_lengths_match :
  forall clamp (glat glon : list R) (pts : list (R * R)) (galt gtime alts times : list R) (states : list (list R)),
    length alts = length pts -> length times = length pts ->
    Forall (fun v => length v = length pts) states ->
    let '(la, lo, al, ti, st, _) :=
      @part_run RNum clamp glat glon galt gtime pts (Some alts) (Some times) states in
    length lo = length la /\
    (forall a, al = Some a -> length a = length la) /\
    (forall t, ti = Some t -> length t = length la) /\
    Forall (fun s => length s = length la) st.
Proof. exact part_lengths_match. Qed.
Print Assumptions C05_lengths_match.

Theorem C05_lengths_match_integrated :
  forall clamp (glat glon : list R) (pts : list (R * R)) (dist : R * R -> R * R -> R) fix3 (var : list R),
    length var = pred (length pts) ->
    length (@part_values RNum fix3 var (@attach_dists RNum dist (@part_geometry RNum clamp glat glon pts)))
    = length (all_cells (@part_geometry RNum clamp glat glon pts)).
Proof. intros. rewrite cells_total. apply values_length. assumption. Qed.
Print Assumptions C05_lengths_match_integrated.

(* alt_time_state_from_start: the output is one block per segment; every piece of block j carries the cell
   index of the altitude (time) of point j — the segment's START point — and the state values of point j *)
Theorem C05_alt_time_from_start :
  forall clamp (glat glon : list R) (pts : list (R * R)) (g vals : list R),
    @axis_indices RNum clamp g vals (counts (@part_geometry RNum clamp glat glon pts))
    = concat (map2 (fun v c => repeat (@cell_index RNum clamp g v) c) (removelast vals)
                   (counts (@part_geometry RNum clamp glat glon pts))).
Proof. exact axis_from_start. Qed.
Print Assumptions C05_alt_time_from_start.

Theorem C05_state_from_start :
  forall clamp (glat glon : list R) (pts : list (R * R)) (var : list R),
    @state_values RNum var (counts (@part_geometry RNum clamp glat glon pts))
    = concat (map2 (fun v c => repeat v c) (removelast var) (counts (@part_geometry RNum clamp glat glon pts))).
Proof. exact state_from_start. Qed.
Print Assumptions C05_state_from_start.

(* the cell index of an inside coordinate is a valid cell containing it (altitude / time axis) *)
Theorem C05_axis_cell_contains_start :
  forall clamp (g : list R) (x : R), incr g -> inside g x ->
    let c := @cell_index RNum clamp g x in
    c = (@ss_left RNum g x - 1)%Z /\ (0 <= c)%Z /\ (c + 1 < glen g)%Z /\ gn g c < x <= gn g (c + 1).
Proof. exact cell_spec. Qed.
Print Assumptions C05_axis_cell_contains_start.

(* F20 — as coded, a coordinate exactly on the lowest grid line gets index -1, which Python indexing turns
   into the LAST grid line: no cell containing the point starts there. *)
Theorem C05_lowest_line_refuted :
  exists (g : list R) (x : R),
    incr g /\ gn g 0 <= x <= gn g (glen g - 1) /\
    ~ (exists c, (0 <= c)%Z /\ (c + 1 < glen g)%Z /\
                 @py_nth RNum g (@cell_index RNum false g x) = gn g c /\ gn g c <= x <= gn g (c + 1)).
Proof. exact lowest_line_refuted. Qed.
Print Assumptions C05_lowest_line_refuted.

(* repaired (index clamped at 0): every coordinate of the closed grid range is reported in a cell containing it *)
Theorem C05_lowest_line_fixed :
  forall (g : list R) (x : R), incr g -> (2 <= glen g)%Z -> gn g 0 <= x <= gn g (glen g - 1) ->
    in_cell g (@cell_index RNum true g x) x.
Proof. exact clamped_cell_spec. Qed.
Print Assumptions C05_lowest_line_fixed.

(* FC05a — the point inserted where a segment crosses the antimeridian.  Repaired: it lies on the straight map
   line of the (unwrapped) segment.  As coded: it keeps the start latitude and is off the line. *)
Theorem C05_antimeridian_point_on_line :
  forall sg (lat0 lon0 lat1 lon1 : R),
    let lon_cross := if (sg =? -1)%Z then @pi RNum else - @pi RNum in
    let lon_end := if (sg =? -1)%Z then lon1 + 2 * @pi RNum else lon1 - 2 * @pi RNum in
    lon_end <> lon0 ->
    (@crossing_lat RNum true false sg (lat0, lon0) (lat1, lon1) - lat0) * (lon_end - lon0)
    = (lon_cross - lon0) * (lat1 - lat0).
Proof. exact crossing_lat_on_line. Qed.
Print Assumptions C05_antimeridian_point_on_line.

Theorem C05_antimeridian_point_as_coded_refuted :
  exists sg lat0 lon0 lat1 lon1,
    let lon_cross := if (sg =? -1)%Z then @pi RNum else - @pi RNum in
    let lon_end := if (sg =? -1)%Z then lon1 + 2 * @pi RNum else lon1 - 2 * @pi RNum in
    lon_end <> lon0 /\
    (@crossing_lat RNum false false sg (lat0, lon0) (lat1, lon1) - lat0) * (lon_end - lon0)
    <> (lon_cross - lon0) * (lat1 - lat0).
Proof. exact crossing_lat_as_coded_refuted. Qed.
Print Assumptions C05_antimeridian_point_as_coded_refuted.

(* ---------- points on the lowest line (clamped index), trajectory parts, one antimeridian crossing ---------- *)

(* the closed range is really covered: a point exactly on the lowest line is admissible under the clamp *)
Example C05_lowest_line_point_admissible : okx true [0; 1; 2] 0 /\ ~ inside [0; 1; 2] 0.
Proof.
  split.
  - right. split; [reflexivity|]. unfold inside_c, glen, gn. simpl. split; [lia|lra].
  - unfold inside, gn. simpl. lra.
Qed.

(* every segment of a trajectory part with admissible points: containment, path order, chain shape *)
Theorem C05_part_contained :
  forall clamp (glat glon : list R) (pts : list (R * R)),
    incr glat -> incr glon -> Forall (pt_ok clamp glat glon) pts ->
    Forall (geom_ok glat glon) (@part_geometry RNum clamp glat glon pts).
Proof. exact part_contained. Qed.
Print Assumptions C05_part_contained.

(* ONE antimeridian crossing: [geometry] yields two parts, and every segment of BOTH parts — including the two
   created by the crossing, whose inserted end point sits on longitude +-pi (the lowest line of a global grid)
   — satisfies containment, path order and chain shape *)
Theorem C05_crossing_contained :
  forall clamp fixdl fixe (glat glon galt gtime : list R) (pts : list (R * R)) alts times states,
    incr glat -> incr glon ->
    count_nonzero (@crossings RNum (map snd pts)) = 1%nat ->
    let cr := @crossings RNum (map snd pts) in
    let i := first_nonzero cr O in
    let sg := nth i cr 0%Z in
    let latx := @crossing_lat RNum fixdl fixe sg (nth i pts (0, 0)) (nth (S i) pts (0, 0)) in
    Forall (pt_ok clamp glat glon) pts ->
    okx clamp glat latx -> okx clamp glon (@exit_lon RNum sg) -> okx clamp glon (@entry_lon RNum sg) ->
    exists r1 r2,
      @geometry RNum clamp fixdl fixe glat glon galt gtime pts alts times states = (1%Z, i, [r1; r2]) /\
      Forall (geom_ok glat glon) (snd r1) /\ Forall (geom_ok glat glon) (snd r2).
Proof. exact crossing_contained. Qed.
Print Assumptions C05_crossing_contained.

(* FC04e — the crossing latitude.  Repaired (clamped between the two end latitudes): between them BY CONSTRUCTION,
   for any input, hence admissible whenever the end points are. *)
Theorem C05_crossing_latitude_between :
  forall fixdl fixe_unused sg (lat0 lon0 lat1 lon1 : R),
    fixe_unused = true ->
    Rmin lat0 lat1 <= @crossing_lat RNum fixdl fixe_unused sg (lat0, lon0) (lat1, lon1) <= Rmax lat0 lat1.
Proof. intros fixdl f sg lat0 lon0 lat1 lon1 ->. apply crossing_lat_clamped_between. Qed.
Print Assumptions C05_crossing_latitude_between.

(* for a real crossing the clamp changes nothing over the reals (the inserted point stays on the segment's line,
   C05_antimeridian_point_on_line) ... *)
Theorem C05_crossing_latitude_clamp_is_identity_on_crossings :
  forall sg (lat0 lon0 lat1 lon1 : R),
    - @pi RNum <= lon0 <= @pi RNum -> - @pi RNum <= lon1 <= @pi RNum ->
    (sg = (-1)%Z -> lon1 - lon0 < - @pi RNum) -> (sg <> (-1)%Z -> @pi RNum < lon1 - lon0) ->
    @crossing_lat RNum true true sg (lat0, lon0) (lat1, lon1) = @crossing_lat RNum true false sg (lat0, lon0) (lat1, lon1).
Proof. exact crossing_lat_clamp_id. Qed.
Print Assumptions C05_crossing_latitude_clamp_is_identity_on_crossings.

(* ... and the unclamped reading is between the end latitudes only under the crossing hypotheses and exact arithmetic *)
Theorem C05_crossing_latitude_between_unclamped :
  forall sg (lat0 lon0 lat1 lon1 : R),
    - @pi RNum <= lon0 <= @pi RNum -> - @pi RNum <= lon1 <= @pi RNum ->
    (sg = (-1)%Z -> lon1 - lon0 < - @pi RNum) -> (sg <> (-1)%Z -> @pi RNum < lon1 - lon0) ->
    Rmin lat0 lat1 <= @crossing_lat RNum true false sg (lat0, lon0) (lat1, lon1) <= Rmax lat0 lat1.
Proof. exact crossing_lat_between. Qed.
Print Assumptions C05_crossing_latitude_between_unclamped.

(* before the fix: betweenness is not a property of the formula (real-number counter-example outside the crossing
   hypotheses) and fails in binary64 for a crossing segment ending on a pole — kernel-float witness *)
Theorem C05_crossing_latitude_before_fix_refuted :
  exists sg lat0 lon0 lat1 lon1,
    ~ (Rmin lat0 lat1 <= @crossing_lat RNum true false sg (lat0, lon0) (lat1, lon1) <= Rmax lat0 lat1).
Proof. exact crossing_lat_before_fix_refuted. Qed.
Print Assumptions C05_crossing_latitude_before_fix_refuted.

Theorem C05_crossing_latitude_before_fix_overshoots_pole_binary64 :
  PrimFloat.ltb (@crossing_lat FNum true false 1%Z (w_lat0, w_lon0) (w_lat1, w_lon1)) w_lat1 = true /\
  PrimFloat.eqb (@crossing_lat FNum true true 1%Z (w_lat0, w_lon0) (w_lat1, w_lon1)) w_lat1 = true.
Proof. exact (conj crossing_lat_before_fix_overshoots_pole_binary64 crossing_lat_clamped_is_end_latitude_binary64). Qed.
Print Assumptions C05_crossing_latitude_before_fix_overshoots_pole_binary64.

(* lengths_match for the crossing case: both parts *)
Theorem C05_crossing_lengths_match :
  forall clamp fixdl fixe (glat glon galt gtime : list R) (pts : list (R * R)) (alts times : list R)
         (states : list (list R)),
    count_nonzero (@crossings RNum (map snd pts)) = 1%nat ->
    length alts = length pts -> length times = length pts ->
    Forall (fun v => length v = length pts) states ->
    exists i r1 r2,
      @geometry RNum clamp fixdl fixe glat glon galt gtime pts (Some alts) (Some times) states = (1%Z, i, [r1; r2]) /\
      lengths_ok r1 /\ lengths_ok r2.
Proof. exact crossing_lengths_match. Qed.
Print Assumptions C05_crossing_lengths_match.

(* share = length share, tied to the cell: every value of a segment is v * |piece| / |segment| for a piece lying
   in the closed cell the value is attributed to *)
Theorem C05_values_in_attributed_cells :
  forall clamp (glat glon : list R) (lat0 lon0 lat1 lon1 : R),
    incr glat -> incr glon ->
    okx clamp glat lat0 -> okx clamp glat lat1 -> okx clamp glon lon0 -> okx clamp glon lon1 ->
    forall (dist : R * R -> R * R -> R) fix3 (v : R),
      dist (lat0, lon0) (lat1, lon1) <> 0 ->
      Forall2 (fun c val => exists ab, In ab (pairs (chain clamp glat glon lat0 lon0 lat1 lon1)) /\
                                       piece_in_cell glat glon c ab /\
                                       val = v * dist (fst ab) (snd ab) / dist (lat0, lon0) (lat1, lon1))
              (cells clamp glat glon lat0 lon0 lat1 lon1)
              (@seg_values RNum fix3 v (dist (lat0, lon0) (lat1, lon1))
                           (map (fun ab => dist (fst ab) (snd ab))
                                (pairs (chain clamp glat glon lat0 lon0 lat1 lon1)))).
Proof. exact values_in_cells. Qed.
Print Assumptions C05_values_in_attributed_cells.

(* indexed form: output position (pieces of segments 0..j-1) + r, r < pieces of segment j, carries the cell
   index of the altitude / time of point j, the START point of segment j (C05_axis_cell_contains_start /
   C05_lowest_line_fixed say that this cell contains it), and the state value of point j *)
Theorem C05_alt_time_at_position :
  forall clamp (glat glon : list R) (pts : list (R * R)) (g vals : list R) j r,
    let cs := counts (@part_geometry RNum clamp glat glon pts) in
    length vals = length pts -> (j < length cs)%nat -> (r < nth j cs 0)%nat ->
    nth (list_sum (firstn j cs) + r) (@axis_indices RNum clamp g vals cs) 0%Z
    = @cell_index RNum clamp g (nth j vals 0).
Proof. exact axis_index_at. Qed.
Print Assumptions C05_alt_time_at_position.

Theorem C05_state_at_position :
  forall clamp (glat glon : list R) (pts : list (R * R)) (var : list R) j r,
    let cs := counts (@part_geometry RNum clamp glat glon pts) in
    length var = length pts -> (j < length cs)%nat -> (r < nth j cs 0)%nat ->
    nth (list_sum (firstn j cs) + r) (@state_values RNum var cs) 0 = nth j var 0.
Proof. exact state_value_at. Qed.
Print Assumptions C05_state_at_position.
